CONSTANTS Clients = {1, 2}  MaxSeq = 2  BS = 2  Getters = {1, 2}
SPECIFICATION Spec
INVARIANT Inv
