SPECIFICATION Spec
PROPERTY PropertyOK
