-------------------------------- MODULE Rules --------------------------------
(* Vote / lock / commit rules of the three rulesets (protocol/rules/*.go).                   *)
(* A forest is a function block id -> [view, parent, qc, qcv]: parent and qc are block ids     *)
(* (0 = genesis, -1 = a block that is not in the store), qcv the view the QC is labelled with. *)
(* `have` is the set of stored blocks (the presented block itself is in the caller's hand).    *)
(* Ref* = the published rules; Impl* = the rules as coded.                                     *)
EXTENDS Integers, Sequences, FiniteSets, SequencesExt

Known(have, x) == x # -1 /\ x \in have
QCB(f, b) == f[b].qc
\* walk from block b (in hand) along parent links through stored blocks while the view is above tv
RECURSIVE WalkTo(_, _, _, _)
WalkTo(f, have, cur, tv) == IF f[cur].view <= tv THEN cur
                            ELSE IF Known(have, f[cur].parent) THEN WalkTo(f, have, f[cur].parent, tv) ELSE -1
ExtendsB(f, have, b, t) == WalkTo(f, have, b, f[t].view) = t

\* three blocks certified in a row: b1 = qc(b), b2 = qc(b1), b3 = qc(b2), all known
Chain3(f, have, b) ==
    LET b1 == QCB(f, b) IN
    IF ~Known(have, b1) THEN <<-1, -1, -1>> ELSE
    LET b2 == QCB(f, b1) IN
    IF ~Known(have, b2) THEN <<b1, -1, -1>> ELSE
    LET b3 == QCB(f, b2) IN
    IF ~Known(have, b3) THEN <<b1, b2, -1>> ELSE <<b1, b2, b3>>
\* directly linked and consecutively numbered
Direct(f, child, par) == f[child].parent = par /\ f[child].view = f[par].view + 1

\* ================= published rules ==========================================================
\* chained HotStuff: lock on the two-chain head; commit the tail of a three-chain of directly linked,
\* consecutively numbered certified blocks; vote if the certified block is newer than the lock (liveness)
\* or the block extends the lock (safety)
RefChainedVote(f, have, lock, b) ==
    \/ Known(have, QCB(f, b)) /\ f[QCB(f, b)].view > f[lock].view
    \/ ExtendsB(f, have, b, lock)
RefChainedLock(f, have, lock, b) ==
    LET c == Chain3(f, have, b) IN IF c[2] # -1 /\ f[c[2]].view > f[lock].view THEN c[2] ELSE lock
RefChainedCommit(f, have, b) ==
    LET c == Chain3(f, have, b) IN IF c[3] # -1 /\ Direct(f, c[1], c[2]) /\ Direct(f, c[2], c[3]) THEN c[3] ELSE -1
\* simplified HotStuff: same lock; vote if the certified block is not older than the lock; commit under
\* the view-gap condition, i.e. only the tail of three directly linked, consecutively numbered blocks
RefSimpleVote(f, have, lock, b) == Known(have, QCB(f, b)) /\ f[QCB(f, b)].view >= f[lock].view
RefSimpleLock(f, have, lock, b) == RefChainedLock(f, have, lock, b)
RefSimpleCommit(f, have, b) == RefChainedCommit(f, have, b)
\* Fast-HotStuff: two-chain commit; plain vote: view = certified view + 1; with an aggregate QC: the block
\* extends the high-QC block
RefFastVote(f, have, b, agg) ==
    IF agg THEN Known(have, QCB(f, b)) /\ ExtendsB(f, have, b, QCB(f, b))
    ELSE f[b].view = f[b].qcv + 1
RefFastCommit(f, have, b) ==
    LET p == QCB(f, b) IN
    IF ~Known(have, p) THEN -1 ELSE
    LET g == QCB(f, p) IN
    IF ~Known(have, g) THEN -1 ELSE
    IF Direct(f, b, p) /\ Direct(f, p, g) THEN g ELSE -1

\* ================= as coded =================================================================
ImplChainedVote(f, have, lock, b) == RefChainedVote(f, have, lock, b)
ImplChainedLock(f, have, lock, b) == RefChainedLock(f, have, lock, b)
ImplChainedCommit(f, have, b) == RefChainedCommit(f, have, b)
ImplSimpleVote(f, have, lock, b) == RefSimpleVote(f, have, lock, b)
ImplSimpleLock(f, have, lock, b) == RefSimpleLock(f, have, lock, b)
\* SimpleHotStuff.CommitRule after the fix of D15 (parent links are checked, as in the other rulesets)
ImplSimpleCommit(f, have, b) == RefSimpleCommit(f, have, b)
\* SimpleHotStuff.CommitRule as it was: QC links and the view gap only
OldSimpleCommit(f, have, b) ==
    LET c == Chain3(f, have, b) IN IF c[3] # -1 /\ f[c[3]].view + 2 = f[c[1]].view THEN c[3] ELSE -1
ImplFastVote(f, have, b, agg) == RefFastVote(f, have, b, agg)
ImplFastCommit(f, have, b) == RefFastCommit(f, have, b)

\* ================= a presentation run =======================================================
\* the blocks of `order` are presented one after the other: vote decision (before the block is stored),
\* then the block is stored and the commit rule runs (lock update, commit)
Vote(rs, f, have, lock, b, agg, ref) ==
    CASE rs = "chained" -> IF ref THEN RefChainedVote(f, have, lock, b) ELSE ImplChainedVote(f, have, lock, b)
      [] rs = "simple" -> IF ref THEN RefSimpleVote(f, have, lock, b) ELSE ImplSimpleVote(f, have, lock, b)
      [] rs = "fast" -> IF ref THEN RefFastVote(f, have, b, agg) ELSE ImplFastVote(f, have, b, agg)
LockOf(rs, f, have, lock, b, ref) ==
    CASE rs = "chained" -> RefChainedLock(f, have, lock, b)
      [] rs = "simple" -> RefSimpleLock(f, have, lock, b)
      [] rs = "fast" -> 0
Commit(rs, f, have, b, ref) ==
    CASE rs = "chained" -> RefChainedCommit(f, have, b)
      [] rs = "simple" -> IF ref THEN RefSimpleCommit(f, have, b) ELSE ImplSimpleCommit(f, have, b)
      [] rs = "fast" -> RefFastCommit(f, have, b)
RECURSIVE Run(_, _, _, _, _, _, _, _)
Run(rs, f, order, i, have, lock, agg, ref) ==
    IF i > Len(order) THEN <<>>
    ELSE LET b == order[i]
             v == Vote(rs, f, have, lock, b, agg[i], ref)
             h2 == have \cup {b}
             l2 == LockOf(rs, f, h2, lock, b, ref)
             c == Commit(rs, f, h2, b, ref)
         IN <<[b |-> b, vote |-> v, lock |-> l2, commit |-> c]>> \o Run(rs, f, order, i + 1, h2, l2, agg, ref)
=============================================================================
