----------------------------- MODULE Trace_C12 -----------------------------
(* Line check: every protocol object of the grammar Wire!Objects (enumerated by TLC, MC_Wire)  *)
(* is built with real keys, sent through ToProto -> Marshal -> Unmarshal -> FromProto, and its   *)
(* projection (hash, bytes-to-sign, participants, fields the receiver acts on, verification      *)
(* verdict at another replica) is recorded before and after.                                      *)
EXTENDS Wire, Json, TLC
Trace == ndJsonDeserialize("trace.ndjson")
VARIABLES l, seen
Init == l = 0 /\ seen = {}
Next == l < Len(Trace) /\ l' = l + 1 /\ seen' = seen \cup {<<Trace[l + 1].scheme, Trace[l + 1].id>>}
Spec == Init /\ [][Next]_<<l, seen>>
Cur == Trace[l]
Schemes == {Trace[i].scheme : i \in 1..Len(Trace)}
PropertyOK == l > 0 =>
    CASE Cur.kind = "fetch" -> Cur.got \in {"", Cur.requested} /\ (Cur.honest => Cur.got = Cur.requested)
      [] OTHER -> Cur.before = Cur.after
\* every object shape of the grammar occurs for every scheme (checked at the end of the trace)
Coverage == l = Len(Trace) => \A s \in Schemes : \A i \in 1..Cardinality(Objects) : <<s, i>> \in seen
=============================================================================
