SPECIFICATION Spec
INVARIANT PropertyOK
INVARIANT Coverage
