----------------------------- MODULE Trace_C19 -----------------------------
(* State-machine replay (skeleton M) of operation sequences executed on the real            *)
(* crypto.Bitfield and on real multi-signatures.  Lines:                                    *)
(*  {"op":"new"}                                                                            *)
(*  {"op":"add","id":k,  "len":n,"iter":[..],"bytes":[..],"probe":[..],"has":[..]}         *)
(*  {"op":"frombytes","in":[..], "len":n,"iter":[..],"bytes":[..],"probe":[..],"has":[..]} *)
(*  {"op":"multi","scheme":s,"signers":[..],"err":b,"len":n,"iter":[..],"probe":..,"has":..}*)
(* PropertyOK compares every observation with the ideal set (Pass A); ConformsToModel with  *)
(* the byte-level model of IDSet (Pass B).                                                  *)
EXTENDS IDSet, Json, TLC
Trace == ndJsonDeserialize("trace.ndjson")
VARIABLES l, S, bf
vars == <<l, S, bf>>
Init == l = 0 /\ S = {} /\ bf = BfEmpty
Line == Trace[l + 1]
Step ==
    /\ l < Len(Trace)
    /\ l' = l + 1
    /\ CASE Line.op = "new" -> S' = {} /\ bf' = BfEmpty
         [] Line.op = "add" -> S' = S \cup {Line.id} /\ bf' = BfAdd(bf, Line.id)
         [] Line.op = "frombytes" -> S' = IdsOf(Line.in) /\ bf' = BfFromBytes(Line.in)
         [] OTHER -> UNCHANGED <<S, bf>>
Spec == Init /\ [][Step]_vars

Cur == Trace[l]
ProbeOK(T) == \A i \in 1..Len(Cur.probe) : Cur.has[i] <=> (Cur.probe[i] \in T)
SetObsOK(T) == Cur.len = Cardinality(T) /\ Cur.iter = SortedSeq(T) /\ ProbeOK(T)

PropertyOK == l > 0 =>
    CASE Cur.op = "new" -> TRUE
      [] Cur.op \in {"add", "frombytes"} -> SetObsOK(S) /\ IdsOf(Cur.bytes) = S
      [] Cur.op = "multi" ->
           \* a signature produced by Sign/Combine: size = number of distinct signers
           ~Cur.err => /\ Cur.len = Cardinality(ToSet(Cur.signers))
                       /\ ToSet(Cur.iter) = ToSet(Cur.signers)
                       /\ Len(Cur.iter) = Cur.len
                       /\ ProbeOK(ToSet(Cur.signers))
      [] OTHER -> FALSE

ConformsToModel == l > 0 =>
    CASE Cur.op \in {"add", "frombytes"} ->
           /\ Cur.bytes = bf.data /\ Cur.len = bf.len /\ Cur.iter = BfIter(bf.data)
           /\ \A i \in 1..Len(Cur.probe) : Cur.has[i] <=> BfContains(bf.data, Cur.probe[i])
      [] Cur.op = "multi" ->
           \* Combine rejects overlapping signer lists and fewer than two inputs
           Cur.err <=> (Cardinality(ToSet(Cur.signers)) # Len(Cur.signers) \/ Cur.parts < 2)
      [] OTHER -> TRUE
=============================================================================
