SPECIFICATION Spec
PROPERTY P_C01
