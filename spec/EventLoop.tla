------------------------------ MODULE EventLoop ------------------------------
(* The event loop (core/eventloop/eventloop.go), sequential part: handlers per event type    *)
(* (priority / run-in-AddEvent flags, slot reuse on re-registration), AddEvent, Tick,        *)
(* DelayUntil and the re-adding of deferred events after an event of the awaited type.        *)
(* An event is <<type, id>>; an invocation is <<handler, event id>>.                          *)
EXTENDS Integers, Sequences, FiniteSets, SequencesExt, EventQueue

\* handlers: function handler id -> [type, prio, inadd]; slots: sequence of handler ids in registration order;
\* a freed slot of a handler of type t holds -t (the code keeps one slot list per event type and reuses the
\* first freed slot of that list)
Live(slots) == {x \in {slots[i] : i \in 1..Len(slots)} : x > 0}
Matching(slots, hs, type, inadd) == {h \in Live(slots) : hs[h].type = type /\ hs[h].inadd = inadd}
\* Register: first freed slot is reused, else append
RegisterSlot(slots, h, type) ==
    IF \E i \in 1..Len(slots) : slots[i] = -type
    THEN [slots EXCEPT ![CHOOSE i \in 1..Len(slots) : slots[i] = -type /\ \A j \in 1..(i - 1) : slots[j] # -type] = h]
    ELSE Append(slots, h)
UnregisterSlot(slots, hs, h) == [i \in 1..Len(slots) |-> IF slots[i] = h THEN -hs[h].type ELSE slots[i]]

\* as coded: prioritised handlers in slot order, then the ordinary ones in slot order
CodeOrder(slots, hs, type, inadd) ==
    LET sel(p) == SelectSeq(slots, LAMBDA h : h > 0 /\ hs[h].type = type /\ hs[h].inadd = inadd /\ hs[h].prio = p)
    IN sel(TRUE) \o sel(FALSE)
InvOf(order, ev) == [i \in 1..Len(order) |-> <<order[i], ev[2]>>]

\* ---- property-level expectations ----------------------------------------------------------
\* seg is a valid dispatch of event ev to handler class (type, inadd): every matching handler exactly
\* once, prioritised ones first
ValidDispatch(seg, slots, hs, ev, inadd) ==
    LET want == Matching(slots, hs, ev[1], inadd)
    IN /\ Len(seg) = Cardinality(want)
       /\ {seg[i][1] : i \in 1..Len(seg)} = want
       /\ \A i \in 1..Len(seg) : seg[i][2] = ev[2]
       /\ \A i, j \in 1..Len(seg) : (i < j /\ hs[seg[j][1]].prio) => hs[seg[i][1]].prio
RECURSIVE ValidReAdds(_, _, _, _)
\* inv continues with the run-in-AddEvent dispatch of every re-added deferred event, in deferral order
ValidReAdds(inv, slots, hs, deferred) ==
    IF deferred = <<>> THEN inv = <<>>
    ELSE LET k == Cardinality(Matching(slots, hs, Head(deferred)[1], TRUE))
         IN /\ Len(inv) >= k
            /\ ValidDispatch(SubSeq(inv, 1, k), slots, hs, Head(deferred), TRUE)
            /\ ValidReAdds(SubSeq(inv, k + 1, Len(inv)), slots, hs, Tail(deferred))
RECURSIVE PushAll(_, _, _)
PushAll(s, evs, cap) == IF evs = <<>> THEN s ELSE PushAll(FifoPush(s, Head(evs), cap).s, Tail(evs), cap)
RECURSIVE CodeReAdds(_, _, _)
CodeReAdds(slots, hs, deferred) ==
    IF deferred = <<>> THEN <<>>
    ELSE InvOf(CodeOrder(slots, hs, Head(deferred)[1], TRUE), Head(deferred)) \o CodeReAdds(slots, hs, Tail(deferred))
=============================================================================
