CONSTANTS MaxBase = 3  MaxViews = 3  MaxLog = 2
SPECIFICATION Spec
INVARIANT Inv
