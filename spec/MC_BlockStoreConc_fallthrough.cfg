CONSTANTS Procs = {1, 2}  Hashes = {"a", "b"}  Remote = {"a"}  Design = "fallthrough"
SPECIFICATION Spec
INVARIANT IndexedOnce
PROPERTY Answers
