----------------------------- MODULE Trace_C02 -----------------------------
(* Line check of verdicts of the real cert.Authority.Verify* on crafted certificates whose   *)
(* ground truth (who really signed what) the harness knows.                                  *)
EXTENDS Cert, Json, TLC
Trace == ndJsonDeserialize("trace.ndjson")
VARIABLE l
Init == l = 0
Next == l < Len(Trace) /\ l' = l + 1
Spec == Init /\ [][Next]_l
Cur == Trace[l]

\* Pass A: accepted only if sound; honestly assembled certificates verify (n >= 2)
PropertyOK == l > 0 =>
    CASE Cur.kind = "qc" -> /\ Cur.ok => SoundQC(Cur.qc, Cur.n)
                            /\ (Cur.honest /\ Cur.n >= 2) => Cur.ok
      [] Cur.kind = "tc" -> /\ Cur.ok => SoundTC(Cur.tc, Cur.n)
                            /\ (Cur.honest /\ Cur.n >= 2) => Cur.ok
      [] Cur.kind = "agg" -> /\ Cur.ok => (SoundAgg(Cur.agg, Cur.n) /\ SoundHighQC(Cur.agg, Cur.defs, Cur.n, Cur.high))
                             /\ (Cur.honest /\ Cur.n >= 2) => Cur.ok
      [] OTHER -> FALSE

\* Pass B: the verdict is the one the implementation-shaped model computes
ConformsToModel == l > 0 =>
    CASE Cur.kind = "qc" -> Cur.ok <=> VerifyQC(Cur.qc, Cur.n)
      [] Cur.kind = "tc" -> Cur.ok <=> VerifyTC(Cur.tc, Cur.n)
      [] Cur.kind = "agg" -> /\ Cur.ok <=> VerifyAgg(Cur.agg, Cur.defs, Cur.n)
                             /\ Cur.ok => /\ Cur.high \in ValidNames(Cur.agg, Cur.defs, Cur.n)
                                          /\ \A v \in HighQCViews(Cur.agg, Cur.defs, Cur.n) : v <= Cur.defs[Cur.high].view
      [] OTHER -> FALSE
=============================================================================
