------------------------------ MODULE MC_Twins ------------------------------
(* Model-level checks: (1) the odometer enumerates base^views distinct digit vectors;         *)
(* (2) the verdict loop as coded (checkCommits) equals the reference verdict on all synthetic  *)
(* commit logs of up to 3 ordinary replicas and one twin pair, length <= MaxLog, 2 block ids. *)
EXTENDS Twins, TLC
CONSTANTS MaxBase, MaxViews, MaxLog
Logs == UNION {[1..k -> 1..2] : k \in 0..MaxLog}
VARIABLES base, views, logs
Init == /\ base \in 1..MaxBase /\ views \in 0..MaxViews
        /\ \E a, b, c, d \in Logs : logs = <<[id |-> 1, nodes |-> 2, log |-> d], [id |-> 2, nodes |-> 1, log |-> a],
                                           [id |-> 3, nodes |-> 1, log |-> b], [id |-> 4, nodes |-> 1, log |-> c]>>
Next == UNCHANGED <<base, views, logs>>
Spec == Init /\ [][Next]_<<base, views, logs>>
\* checkCommits as coded: scan positions until nobody has an entry; stop at the first disagreement
RECURSIVE CodeScan(_, _)
CodeScan(L, i) == IF ~SomeAt(L, i + 1) THEN <<TRUE, i>>
                  ELSE IF Cardinality({a[i + 1] : a \in {x \in L : Len(x) >= i + 1}}) # 1 THEN <<FALSE, i>>
                  ELSE CodeScan(L, i + 1)
OdometerOK == LET lp == [i \in 1..base |-> i]
                  all == {OdometerScenario(j, views, lp) : j \in 0..(Pow(base, views) - 1)}
              IN Cardinality(all) = Pow(base, views) /\ all = [1..views -> 1..base]
VerdictOK == LET r == CodeScan(NonTwinLogs(logs), 0)
             IN (r[1] <=> ~RefUnsafe(logs)) /\ r[2] = RefCommits(logs)
Inv == OdometerOK /\ VerdictOK
=============================================================================
