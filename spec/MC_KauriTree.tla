---------------------------- MODULE MC_KauriTree ----------------------------
(* The heap-layout model forms one tree: identity assignment for n <= MaxN, every        *)
(* permutation for n <= PermN, branch factors 2..MaxBF.                                   *)
EXTENDS KauriTree, TLC
CONSTANTS MaxN, PermN, MaxBF
VARIABLES n, bf, pos
Identity(k) == [i \in 1..k |-> i]
Perms(k) == {p \in [1..k -> 1..k] : \A i, j \in 1..k : p[i] = p[j] => i = j}
Init == n \in 1..MaxN /\ bf \in 2..MaxBF /\ pos \in (IF n <= PermN THEN Perms(n) ELSE {Identity(n)})
Next == UNCHANGED <<n, bf, pos>>
Spec == Init /\ [][Next]_<<n, bf, pos>>
Inv == OneTree(ImplViews(pos, bf))
=============================================================================
