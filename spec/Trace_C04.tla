----------------------------- MODULE Trace_C04 -----------------------------
(* Line check: one line per (ruleset, forest, presentation order) with the decisions of the  *)
(* real ruleset object over a real Blockchain (fetch off):                                   *)
(*  {"rs":..,"blocks":[[id,view,parent,qc,qcv],..],"order":[ids],"agg":[bools],"steps":[{b,vote,lock,commit}]} *)
EXTENDS Rules, Json, TLC
Trace == ndJsonDeserialize("trace.ndjson")
VARIABLE l
Init == l = 0
Next == l < Len(Trace) /\ l' = l + 1
Spec == Init /\ [][Next]_l
Cur == Trace[l]
Forest(blocks) == [i \in {0} \cup {blocks[j][1] : j \in 1..Len(blocks)} |->
                     IF i = 0 THEN [view |-> 0, parent |-> -1, qc |-> -1, qcv |-> 0]
                     ELSE LET j == CHOOSE k \in 1..Len(blocks) : blocks[k][1] = i
                          IN [view |-> blocks[j][2], parent |-> blocks[j][3], qc |-> blocks[j][4], qcv |-> blocks[j][5]]]
PropertyOK == l > 0 => Cur.steps = Run(Cur.rs, Forest(Cur.blocks), Cur.order, 1, {0}, 0, Cur.agg, TRUE)
ConformsToModel == l > 0 => Cur.steps = Run(Cur.rs, Forest(Cur.blocks), Cur.order, 1, {0}, 0, Cur.agg, FALSE)
=============================================================================
