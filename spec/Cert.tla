-------------------------------- MODULE Cert --------------------------------
(* Signatures and certificates (security/crypto/{ecdsa,eddsa,bls12}.go, security/cert/auth.go). *)
(*                                                                                            *)
(* Ground truth is "who really signed what": an ATOM <<s, m>> is a signature produced by      *)
(* replica s's real signing primitive over message m (s = 0: bytes that are no signature).     *)
(* Messages are abstract 4-tuples: <<"B",0,0,name>> block bytes, <<"V",v,0,"">> view bytes,     *)
(* <<"T",id,v,qcname>> timeout-message bytes of replica id for view v carrying QC qcname.       *)
(*                                                                                            *)
(* An abstract signature object is a record                                                   *)
(*   [t |-> "nil"]                           no signature object                              *)
(*   [t |-> "multi", e |-> <<<<c,s,m>>,..>>] ECDSA/EdDSA list: entry claims id c, holds atom <<s,m>> *)
(*   [t |-> "bls", e |-> atoms, bits |-> <<ids>>]  aggregate of the atoms, claimed bit-field    *)
(* Verify*/BatchVerify* are written the way the code computes them; Sound* is property C02.    *)
EXTENDS Integers, Sequences, FiniteSets, SequencesExt, Quorum

BlockMsg(name) == <<"B", 0, 0, name>>
ViewMsg(v) == <<"V", v, 0, "">>
TimeoutMsgBytes(id, v, qcname) == <<"T", id, v, qcname>>

Members(n) == 1..n

\* ---- participants as the code counts them ------------------------------------------------
\* Multi.Len() = number of entries; Bitfield.Len() = number of set bits
PartLen(sig) == CASE sig.t = "multi" -> Len(sig.e)
                  [] sig.t = "bls" -> Cardinality(ToSet(sig.bits))
                  [] OTHER -> 0
Claimed(sig) == CASE sig.t = "multi" -> {sig.e[i][1] : i \in 1..Len(sig.e)}
                  [] sig.t = "bls" -> ToSet(sig.bits)
                  [] OTHER -> {}

\* multiset of atoms of a BLS aggregate as a function atom -> count
Count(seq, x) == Cardinality({i \in 1..Len(seq) : seq[i] = x})
Atoms(sig) == {<<sig.e[i][2], sig.e[i][3]>> : i \in 1..Len(sig.e)}
AtomSeq(sig) == [i \in 1..Len(sig.e) |-> <<sig.e[i][2], sig.e[i][3]>>]

\* ---- crypto.Base.Verify(sig, msg) --------------------------------------------------------
DistinctSigners(sig) == \A i, j \in 1..Len(sig.e) : sig.e[i][1] = sig.e[j][1] => i = j
VerifyMulti(sig, msg, n) ==
    /\ Len(sig.e) > 0
    /\ DistinctSigners(sig)                                   \* fix D1: a signer may appear once
    /\ \A i \in 1..Len(sig.e) : /\ sig.e[i][1] \in Members(n)   \* known replica
                                /\ sig.e[i][2] = sig.e[i][1]    \* really signed by the claimed id
                                /\ sig.e[i][3] = msg            \* over this message
\* BLS: e(sum of claimed keys, H(msg)) = e(G, aggregate): the aggregate must be exactly one
\* signature over msg per claimed id.  (An empty bit-field with the empty aggregate passes:
\* the code has no n = 0 guard; certificates are protected by the quorum count.)
VerifyBLS(sig, msg, n) ==
    /\ ToSet(sig.bits) \subseteq Members(n)
    /\ Atoms(sig) = {<<x, msg>> : x \in ToSet(sig.bits)}
    /\ \A a \in Atoms(sig) : Count(AtomSeq(sig), a) = 1
Verify(sig, msg, n) == CASE sig.t = "multi" -> VerifyMulti(sig, msg, n)
                         [] sig.t = "bls" -> VerifyBLS(sig, msg, n)
                         [] OTHER -> FALSE

\* ---- crypto.Base.BatchVerify(sig, batch) ; batch : id -> msg ------------------------------
BatchVerifyMulti(sig, batch, n) ==
    /\ Len(sig.e) > 0
    /\ DistinctSigners(sig)
    /\ \A i \in 1..Len(sig.e) : /\ sig.e[i][1] \in DOMAIN batch
                                /\ sig.e[i][1] \in Members(n)
                                /\ sig.e[i][2] = sig.e[i][1]
                                /\ sig.e[i][3] = batch[sig.e[i][1]]
    /\ Cardinality({batch[sig.e[i][1]] : i \in 1..Len(sig.e)}) = Cardinality(DOMAIN batch)
BatchVerifyBLS(sig, batch, n) ==
    /\ Cardinality(ToSet(sig.bits)) = Cardinality(DOMAIN batch)
    /\ DOMAIN batch \subseteq Members(n)
    /\ Cardinality(DOMAIN batch) >= 1
    /\ Cardinality(DOMAIN batch) > 1 => Cardinality({batch[x] : x \in DOMAIN batch}) = Cardinality(DOMAIN batch)
    /\ Atoms(sig) = {<<x, batch[x]>> : x \in DOMAIN batch}
    /\ \A a \in Atoms(sig) : Count(AtomSeq(sig), a) = 1
BatchVerify(sig, batch, n) == CASE sig.t = "multi" -> BatchVerifyMulti(sig, batch, n)
                                [] sig.t = "bls" -> BatchVerifyBLS(sig, batch, n)
                                [] OTHER -> FALSE

\* ---- cert.Authority ----------------------------------------------------------------------
\* qc = [hash, view, blockView (view of the block named by hash), known (verifier has / can fetch it), sig]
VerifyQC(qc, n) ==
    IF qc.hash = "genesis" THEN qc.view = 0                  \* fix D2: the label is bound
    ELSE /\ qc.sig.t # "nil"
         /\ PartLen(qc.sig) >= Q(n)
         /\ qc.known
         /\ Verify(qc.sig, BlockMsg(qc.hash), n)
         /\ qc.view = qc.blockView                           \* fix D2
VerifyTC(tc, n) ==
    \/ tc.view = 0
    \/ /\ tc.sig.t # "nil"                                   \* (nil: the code panics -> not accepted)
       /\ PartLen(tc.sig) >= Q(n)
       /\ Verify(tc.sig, ViewMsg(tc.view), n)
\* agg = [view, qcs (sequence of <<id, qcname>>), sig]; defs: qcname -> qc record
QCNameOf(agg, x) == agg.qcs[CHOOSE i \in 1..Len(agg.qcs) : agg.qcs[i][1] = x][2]     \* map keys are unique
AggBatch(agg) == [x \in {agg.qcs[i][1] : i \in 1..Len(agg.qcs)} |-> TimeoutMsgBytes(x, agg.view, QCNameOf(agg, x))]
AggQCNames(agg) == {agg.qcs[i][2] : i \in 1..Len(agg.qcs)}
VerifyAggSig(agg, n) ==
    /\ agg.sig.t # "nil"
    /\ PartLen(agg.sig) >= Q(n)
    /\ BatchVerify(agg.sig, AggBatch(agg), n)
ValidNames(agg, defs, n) == {q \in AggQCNames(agg) : VerifyQC(defs[q], n)}
VerifyAgg(agg, defs, n) == VerifyAggSig(agg, n) /\ ValidNames(agg, defs, n) # {}
\* findHighestValidQC: highest label view among the valid ones
HighQCViews(agg, defs, n) == {defs[q].view : q \in ValidNames(agg, defs, n)}

\* ---- property C02 ------------------------------------------------------------------------
\* replicas that are configured, claimed by the signature and really signed msg
RealSigners(sig, msg, n) ==
    CASE sig.t = "multi" -> {x \in Members(n) : \E i \in 1..Len(sig.e) : sig.e[i] = <<x, x, msg>>}
      [] sig.t = "bls" -> {x \in Members(n) \cap ToSet(sig.bits) : <<x, msg>> \in Atoms(sig)}
      [] OTHER -> {}
SoundQC(qc, n) ==
    \/ qc.hash = "genesis" /\ qc.view = 0                    \* bootstrap certificate, by definition
    \/ /\ qc.hash # "genesis" /\ qc.known
       /\ qc.view = qc.blockView                             \* "together with the view it claims"
       /\ Cardinality(RealSigners(qc.sig, BlockMsg(qc.hash), n)) >= Q(n)
SoundTC(tc, n) ==
    \/ tc.view = 0
    \/ Cardinality(RealSigners(tc.sig, ViewMsg(tc.view), n)) >= Q(n)
RealAggSigners(agg, n) ==
    {x \in Members(n) \cap DOMAIN AggBatch(agg) :
        CASE agg.sig.t = "multi" -> \E i \in 1..Len(agg.sig.e) : agg.sig.e[i] = <<x, x, AggBatch(agg)[x]>>
          [] agg.sig.t = "bls" -> <<x, AggBatch(agg)[x]>> \in Atoms(agg.sig)
          [] OTHER -> FALSE}
SoundAgg(agg, n) == Cardinality(RealAggSigners(agg, n)) >= Q(n)
\* the reported high QC is the highest-view valid QC among those attested by the signers
SoundHighQC(agg, defs, n, reportedName) ==
    /\ reportedName \in AggQCNames(agg)
    /\ SoundQC(defs[reportedName], n)
    /\ \A q \in AggQCNames(agg) : SoundQC(defs[q], n) => defs[q].view <= defs[reportedName].view
=============================================================================
