------------------------------ MODULE MC_Cert ------------------------------
(* Design-level check: over all small multi-signature lists (every claimed id incl. an       *)
(* unknown one, every real signer incl. garbage, right/foreign message, repeats) and all      *)
(* labels, acceptance by the implementation-shaped operators implies soundness.               *)
(* The cfg MC_Cert_nodistinct (negative control) drops the distinct-signer requirement and    *)
(* must be refuted: q copies of one signature would satisfy the quorum.                       *)
EXTENDS Cert, TLC
CONSTANTS N, MaxLen
M1 == BlockMsg("B1")
M2 == BlockMsg("B2")
Entries == {<<c, s, m>> : c \in 0..(N + 1), s \in 0..(N + 1), m \in {M1, M2}}
VARIABLES sig, view
Init == /\ \E k \in 0..MaxLen : sig \in {[t |-> "multi", e |-> e] : e \in [1..k -> Entries]}
        /\ view \in {1, 2}
Next == UNCHANGED <<sig, view>>
Spec == Init /\ [][Next]_<<sig, view>>
QCOf == [hash |-> "B1", view |-> view, blockView |-> 1, known |-> TRUE, sig |-> sig]
TCOf == [view |-> view, sig |-> [t |-> "multi", e |-> [i \in 1..Len(sig.e) |-> <<sig.e[i][1], sig.e[i][2], IF sig.e[i][3] = M1 THEN ViewMsg(1) ELSE ViewMsg(2)>>]]]
Inv == /\ VerifyQC(QCOf, N) => SoundQC(QCOf, N)
       /\ VerifyTC(TCOf, N) => SoundTC(TCOf, N)
\* negative control: the verification as it was before the fix (entries counted, not signers)
OldVerifyMulti(s, msg) == Len(s.e) > 0 /\ \A i \in 1..Len(s.e) : s.e[i][1] \in Members(N) /\ s.e[i][2] = s.e[i][1] /\ s.e[i][3] = msg
OldVerifyQC == PartLen(sig) >= Q(N) /\ OldVerifyMulti(sig, M1)
NegInv == OldVerifyQC => SoundQC([QCOf EXCEPT !.view = 1], N)
=============================================================================
