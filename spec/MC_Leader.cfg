CONSTANT MaxN = 64
SPECIFICATION Spec
INVARIANT Inv
