----------------------------- MODULE Trace_C08 -----------------------------
(* Replay of timeout traffic fed to one REAL replica R (real Synchronizer, collector, timeout  *)
(* rules, Authority); the other replicas are key holders.  Lines:                              *)
(*  {"op":"new","n":n,"q":q,"agg":b,"self":R}                                                   *)
(*  {"op":"tmo","from":s,"view":v,"ok":b (view signature correct),"msgok":b,"pre":{view,bag},"post":{view,bag}, *)
(*   "tcs":[{"view":v,"signers":[..],"valid":b,"aggView":v|-1,"aggValid":b}],"vcs":[views]}      *)
(*  (a local timer expiry of R is logged as a tmo from R itself with "local":true)              *)
(*  {"op":"adv","pre","post"}  R moved by a certificate handed in by the driver                  *)
EXTENDS Pacemaker, Json, TLC
Trace == ndJsonDeserialize("trace.ndjson")
VARIABLES l, cfg, good, done, htc
\* done: the certificates R assembled so far (view -> signers); htc: the highest view R holds a timeout certificate for (assembled
\* or handed in).  A certificate R assembled earlier may leave it again (it travels in R's sync info), and R may use it later to
\* leave the view it is for: neither is a new assembly.
vars == <<l, cfg, good, done, htc>>
Init == l = 0 /\ cfg = [n |-> 1, q |-> 1, agg |-> FALSE, self |-> 1] /\ good = <<>> /\ done = <<>> /\ htc = 0
Line == Trace[l + 1]
\* under the aggregate rule a timeout is correctly signed only if both signatures are
Ok(x) == x.ok /\ (cfg.agg => x.msgok)
Step ==
    /\ l < Len(Trace)
    /\ l' = l + 1
    /\ CASE Line.op = "new" -> cfg' = [n |-> Line.n, q |-> Line.q, agg |-> Line.agg, self |-> Line.self] /\ good' = <<>> /\ done' = <<>> /\ htc' = 0
         [] Line.op = "tmo" ->
              /\ cfg' = cfg
              /\ good' = DropBelow(IF Assembles(good, Line.pre.view, Line.from, Line.view, Ok(Line), cfg.q)
                                   THEN Put(good, Line.view, {})        \* consumed by the certificate
                                   ELSE AfterTimeout(good, Line.pre.view, Line.from, Line.view, Ok(Line)), Line.post.view)
              /\ LET asm == Assembles(good, Line.pre.view, Line.from, Line.view, Ok(Line), cfg.q)
                     mine == {i \in 1..Len(Line.tcs) : Line.tcs[i].view = Line.view} IN
                 /\ done' = IF asm /\ mine # {} /\ Line.view \notin DOMAIN done THEN Put(done, Line.view, ToSet(Line.tcs[CHOOSE i \in mine : TRUE].signers)) ELSE done
                 /\ htc' = IF asm /\ Line.view > htc THEN Line.view ELSE htc
         [] Line.op = "adv" -> cfg' = cfg /\ good' = DropBelow(good, Line.post.view) /\ done' = done
                               /\ htc' = IF Line.post.view - 1 > htc THEN Line.post.view - 1 ELSE htc
         [] OTHER -> UNCHANGED <<cfg, good, done, htc>>
Spec == Init /\ [][Step]_vars

TCViews(x) == {x.tcs[i].view : i \in 1..Len(x.tcs)}
PropertyStep ==
    (l < Len(Trace) /\ Line.op = "tmo") =>
    LET asm == Assembles(good, Line.pre.view, Line.from, Line.view, Ok(Line), cfg.q) IN
    \* exactly when: a certificate for Line.view leaves the replica at this step iff the quorum is reached now
    \* (if R's own timer expires while it already holds a certificate for its view, it leaves the view on that certificate first
    \*  and a second certificate for the view it just left goes nowhere)
    /\ asm => (Line.view \in TCViews(Line) \/ (Line.local /\ htc >= Line.pre.view))
    /\ \A i \in 1..Len(Line.tcs) :
          LET fresh == /\ Line.tcs[i].view = Line.view /\ asm                                   \* assembled at this step, for that view,
                       /\ ToSet(Line.tcs[i].signers) \subseteq (Get(good, Line.view) \cup {Line.from})    \* from those messages only
              resent == /\ Line.tcs[i].view \in DOMAIN done                                      \* or the one it assembled earlier
                        /\ ToSet(Line.tcs[i].signers) = done[Line.tcs[i].view] IN
          /\ fresh \/ resent
          /\ Cardinality(ToSet(Line.tcs[i].signers)) >= cfg.q
          /\ Line.tcs[i].valid                                                    \* verifies at every other replica
          /\ (cfg.agg /\ ~resent) => (Line.tcs[i].aggView = Line.view /\ Line.tcs[i].aggValid)   \* and so does the aggregate certificate
    \* a replica still in the timed-out view moves on to the next one
    /\ (asm /\ Line.pre.view = Line.view) => Line.post.view = Line.view + 1
    \* timeout traffic alone never moves it otherwise -- except by a certificate it already holds for its current (or a later) view
    /\ ~asm => (Line.post.view = Line.pre.view \/ (Line.post.view = Line.pre.view + 1 /\ htc >= Line.pre.view))
ConformStep ==
    (l < Len(Trace) /\ Line.op = "tmo") =>
    /\ Line.post.bag = (IF Ok(Line) THEN BagAfter(Line.pre.bag, Line.from, Line.view, cfg.q, Line.pre.view) ELSE SelectSeq(Line.pre.bag, LAMBDA x : x[2] >= Line.pre.view))
PropertyOK == [][PropertyStep]_vars
ConformsToModel == [][ConformStep]_vars
=============================================================================
