----------------------------- MODULE Trace_C08 -----------------------------
(* Replay of timeout traffic fed to one REAL replica R (real Synchronizer, collector, timeout  *)
(* rules, Authority); the other replicas are key holders.  Lines:                              *)
(*  {"op":"new","n":n,"q":q,"agg":b,"self":R}                                                   *)
(*  {"op":"tmo","from":s,"view":v,"ok":b (view signature correct),"msgok":b,"pre":{view,bag},"post":{view,bag}, *)
(*   "tcs":[{"view":v,"signers":[..],"valid":b,"aggView":v|-1,"aggValid":b}],"vcs":[views]}      *)
(*  (a local timer expiry of R is logged as a tmo from R itself with "local":true)              *)
(*  {"op":"adv","pre","post"}  R moved by a certificate handed in by the driver                  *)
EXTENDS Pacemaker, Json, TLC
Trace == ndJsonDeserialize("trace.ndjson")
VARIABLES l, cfg, good, done
vars == <<l, cfg, good, done>>
Init == l = 0 /\ cfg = [n |-> 1, q |-> 1, agg |-> FALSE, self |-> 1] /\ good = <<>> /\ done = {}
Line == Trace[l + 1]
\* under the aggregate rule a timeout is correctly signed only if both signatures are
Ok(x) == x.ok /\ (cfg.agg => x.msgok)
Step ==
    /\ l < Len(Trace)
    /\ l' = l + 1
    /\ CASE Line.op = "new" -> cfg' = [n |-> Line.n, q |-> Line.q, agg |-> Line.agg, self |-> Line.self] /\ good' = <<>> /\ done' = {}
         [] Line.op = "tmo" ->
              /\ cfg' = cfg
              /\ good' = DropBelow(IF Assembles(good, Line.pre.view, Line.from, Line.view, Ok(Line), cfg.q)
                                   THEN Put(good, Line.view, {})        \* consumed by the certificate
                                   ELSE AfterTimeout(good, Line.pre.view, Line.from, Line.view, Ok(Line)), Line.post.view)
              /\ done' = IF Assembles(good, Line.pre.view, Line.from, Line.view, Ok(Line), cfg.q) THEN done \cup {Line.view} ELSE done
         [] Line.op = "adv" -> cfg' = cfg /\ good' = DropBelow(good, Line.post.view) /\ done' = done
         [] OTHER -> UNCHANGED <<cfg, good, done>>
Spec == Init /\ [][Step]_vars

TCViews(x) == {x.tcs[i].view : i \in 1..Len(x.tcs)}
PropertyStep ==
    (l < Len(Trace) /\ Line.op = "tmo") =>
    LET asm == Assembles(good, Line.pre.view, Line.from, Line.view, Ok(Line), cfg.q) IN
    \* exactly when: a certificate for Line.view leaves the replica at this step iff the quorum is reached now
    /\ asm => Line.view \in TCViews(Line)
    /\ \A i \in 1..Len(Line.tcs) :
          /\ Line.tcs[i].view = Line.view /\ asm                                   \* only at that step, only for that view
          /\ ToSet(Line.tcs[i].signers) \subseteq (Get(good, Line.view) \cup {Line.from})    \* built from those messages only
          /\ Cardinality(ToSet(Line.tcs[i].signers)) >= cfg.q
          /\ Line.tcs[i].valid                                                    \* verifies at every other replica
          /\ cfg.agg => (Line.tcs[i].aggView = Line.view /\ Line.tcs[i].aggValid)   \* and so does the aggregate certificate
    \* a replica still in the timed-out view moves on to the next one
    /\ (asm /\ Line.pre.view = Line.view) => Line.post.view = Line.view + 1
    \* timeout traffic alone never moves it otherwise
    /\ ~asm => Line.post.view = Line.pre.view
ConformStep ==
    (l < Len(Trace) /\ Line.op = "tmo") =>
    /\ Line.post.bag = (IF Ok(Line) THEN BagAfter(Line.pre.bag, Line.from, Line.view, cfg.q, Line.pre.view) ELSE SelectSeq(Line.pre.bag, LAMBDA x : x[2] >= Line.pre.view))
PropertyOK == [][PropertyStep]_vars
ConformsToModel == [][ConformStep]_vars
=============================================================================
