----------------------------- MODULE KauriTree -----------------------------
(* The Kauri dissemination/aggregation tree (internal/tree/tree.go): an implicit heap      *)
(* layout over an assignment pos : 1..n -> replica id of tree positions (position i of the  *)
(* code is index i+1 here).  Impl* operators follow the code; OneTree is property C17,      *)
(* stated on the relations alone (no reference to the layout).                              *)
EXTENDS Integers, Sequences, FiniteSets, SequencesExt, FiniteSetsExt

\* ---- implementation-shaped operators --------------------------------------------------
PosOf(pos, id) == CHOOSE i \in 1..Len(pos) : pos[i] = id        \* replicaPosition + 1
ImplRoot(pos) == pos[1]
ImplHasParent(pos, id) == PosOf(pos, id) # 1
ImplParent(pos, bf, id) == pos[((PosOf(pos, id) - 2) \div bf) + 1]   \* (myPos-1)/bf
ImplChildren(pos, bf, id) ==
    LET p == PosOf(pos, id) - 1
        start == p * bf + 1
        end == IF start + bf > Len(pos) THEN Len(pos) ELSE start + bf
    IN IF start >= Len(pos) THEN <<>> ELSE SubSeq(pos, start + 1, end)
RECURSIVE ImplSubTreeFrom(_, _, _, _)
\* breadth-first expansion of the work list, as SubTree() does
ImplSubTreeFrom(pos, bf, list, i) ==
    IF i > Len(list) THEN list
    ELSE ImplSubTreeFrom(pos, bf, list \o ImplChildren(pos, bf, list[i]), i + 1)
ImplSubTree(pos, bf, id) == ImplSubTreeFrom(pos, bf, ImplChildren(pos, bf, id), 1)
ImplPeers(pos, bf, id) == IF ImplHasParent(pos, id) THEN ImplChildren(pos, bf, ImplParent(pos, bf, id)) ELSE <<>>
RECURSIVE TreeHeightFrom(_, _, _)
TreeHeightFrom(num, level, bf) == IF num <= 0 THEN 0 ELSE 1 + TreeHeightFrom(num - level, level * bf, bf)
ImplTreeHeight(n, bf) == TreeHeightFrom(n, 1, bf)
RECURSIVE LevelOf(_, _, _, _, _)
\* level (0 = root) of 0-based position p
LevelOf(p, start, count, lvl, bf) == IF p < start + count THEN lvl ELSE LevelOf(p, start + count, count * bf, lvl + 1, bf)
ImplHeight(pos, bf, id) == ImplTreeHeight(Len(pos), bf) - LevelOf(PosOf(pos, id) - 1, 0, 1, 0, bf)

ImplView(pos, bf, id) ==
    [id |-> id, hasParent |-> ImplHasParent(pos, id),
     parent |-> IF ImplHasParent(pos, id) THEN ImplParent(pos, bf, id) ELSE id,
     children |-> ImplChildren(pos, bf, id), subtree |-> ImplSubTree(pos, bf, id),
     peers |-> ImplPeers(pos, bf, id), height |-> ImplHeight(pos, bf, id),
     root |-> ImplRoot(pos), isRoot |-> PosOf(pos, id) = 1]
ImplViews(pos, bf) == [i \in 1..Len(pos) |-> ImplView(pos, bf, pos[i])]

\* ---- property C17: the per-replica views fit together into one rooted tree -------------
NoDup(s) == \A i, j \in 1..Len(s) : s[i] = s[j] => i = j
ViewOf(views, id) == views[CHOOSE i \in 1..Len(views) : views[i].id = id]
Ids(views) == {views[i].id : i \in 1..Len(views)}
ChildSet(views, id) == ToSet(ViewOf(views, id).children)
RECURSIVE Desc(_, _, _)
\* descendants of a set of nodes by the reported child relation (bounded by the node count)
Desc(views, frontier, k) ==
    IF k = 0 \/ frontier = {} THEN {}
    ELSE LET next == UNION {ChildSet(views, x) : x \in frontier \cap Ids(views)}
         IN next \cup Desc(views, next, k - 1)
OneTree(views) ==
    LET ids == Ids(views)
        n == Len(views)
        roots == {v \in ToSet(views) : ~v.hasParent}
    IN /\ Cardinality(ids) = n                                   \* one vantage point per replica
       /\ Cardinality(roots) = 1                                 \* exactly one root ...
       /\ \A v \in ToSet(views) : v.root \in ids /\ ~ViewOf(views, v.root).hasParent
                                  /\ (v.isRoot <=> ~v.hasParent) \* ... and everybody names it
       /\ \A v \in ToSet(views) :
            /\ NoDup(v.children) /\ NoDup(v.subtree) /\ ToSet(v.children) \subseteq ids
            /\ v.hasParent =>
                 /\ v.parent \in ids /\ v.parent # v.id
                 /\ v.id \in ChildSet(views, v.parent)            \* listed by its parent
                 /\ \A w \in ToSet(views) : v.id \in ToSet(w.children) => w.id = v.parent   \* and nowhere else
                 /\ ToSet(v.peers) = ChildSet(views, v.parent) /\ NoDup(v.peers)
                 /\ v.height = ViewOf(views, v.parent).height - 1
            /\ ~v.hasParent => v.peers = <<>> /\ \A w \in ToSet(views) : v.id \notin ToSet(w.children)
            /\ ToSet(v.subtree) = Desc(views, {v.id}, n)          \* subtree = descendants
            /\ v.height >= 1
       /\ \A v \in roots : ToSet(v.subtree) \cup {v.id} = ids     \* every replica is in the tree
                           /\ v.height = 1 + Max({0} \cup {ViewOf(views, v.id).height - w.height : w \in ToSet(views)})
=============================================================================
