------------------------------ MODULE Pacemaker ------------------------------
(* The timeout collector and the remote-timeout handling of one replica                      *)
(* (protocol/synchronizer/timeout_collector.go, OnRemoteTimeout, timeoutrule_*.go).            *)
(* good : view -> set of replicas whose correctly signed timeout for that view is counted.      *)
EXTENDS Integers, Sequences, FiniteSets, SequencesExt

Get(f, k) == IF k \in DOMAIN f THEN f[k] ELSE {}
Put(f, k, v) == [x \in DOMAIN f \cup {k} |-> IF x = k THEN v ELSE f[x]]
DropBelow(f, view) == [x \in {y \in DOMAIN f : y >= view} |-> f[x]]

\* ---- property-level model --------------------------------------------------------------------
\* a timeout from s for view v counts when it is correctly signed and the replica has not left v
Counts(view, v, ok) == ok /\ v >= view
AfterTimeout(good, view, s, v, ok) == IF Counts(view, v, ok) THEN Put(good, v, Get(good, v) \cup {s}) ELSE good
\* the certificate for v is assembled at the step at which the counted timeouts for v reach the quorum
Assembles(good, view, s, v, ok, q) ==
    Counts(view, v, ok) /\ s \notin Get(good, v) /\ Cardinality(Get(good, v) \cup {s}) = q

\* ---- as coded (after the fix of D7): the bag of collected messages ------------------------------
\* bag: sequence of <<sender, view>>; add ignores a (sender, view) already present, fires when the
\* messages FOR THAT VIEW reach the quorum and then removes them; deleteOldViews(view at entry) afterwards
BagHas(bag, s, v) == \E i \in 1..Len(bag) : bag[i] = <<s, v>>
SameView(bag, v) == SelectSeq(bag, LAMBDA x : x[2] = v)
BagAdd(bag, s, v) == IF BagHas(bag, s, v) THEN bag ELSE Append(bag, <<s, v>>)
BagFires(bag, s, v, q) == ~BagHas(bag, s, v) /\ Len(SameView(BagAdd(bag, s, v), v)) >= q
BagAfter(bag, s, v, q, entryView) ==
    LET b1 == BagAdd(bag, s, v)
        b2 == IF BagFires(bag, s, v, q) THEN SelectSeq(b1, LAMBDA x : x[2] # v) ELSE b1
    IN SelectSeq(b2, LAMBDA x : x[2] >= entryView)
=============================================================================
