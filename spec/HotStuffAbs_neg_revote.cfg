CONSTANTS N = 4  Byz = {4}  MaxView = 1  MaxBlocksPerView = 2  Ruleset = "chained"  Weak = "revote"  Prefix = 0  EquivViews = {1}  DumpEvery = 0  GroupVotes = FALSE
SPECIFICATION SpecOrdered
INVARIANT OneVotePerView
VIEW view
