CONSTANTS N = 4  Byz = {4}  MaxView = 3  MaxBlocksPerView = 2  Ruleset = "simple"  Weak = "none"  Prefix = 0  EquivViews = {1, 2, 3}  DumpEvery = 0  GroupVotes = FALSE
SPECIFICATION SpecOrdered
INVARIANT Agreement
INVARIANT OneVotePerView
VIEW view
