------------------------------- MODULE IDSet -------------------------------
(* Participant sets (security/crypto/bitfield.go, multisignature.go).                     *)
(* Implementation-shaped model of the Bitfield (byte/bit layout, cached cardinality) next *)
(* to the ideal mathematical set; C19 is the statement that the two agree.                *)
EXTENDS Integers, Sequences, FiniteSets, SequencesExt, FiniteSetsExt

Pow2(j) == CASE j = 0 -> 1 [] j = 1 -> 2 [] j = 2 -> 4 [] j = 3 -> 8
             [] j = 4 -> 16 [] j = 5 -> 32 [] j = 6 -> 64 [] j = 7 -> 128
Bit(b, j) == (b \div Pow2(j)) % 2 = 1

\* ---- implementation-shaped: Bitfield{data []byte, len int} ---------------------------
ByteIdx(id) == (id - 1) \div 8        \* index(id): i := id-1; i/8, i%8
BitIdx(id) == (id - 1) % 8
IdAt(byteIdx, bitIdx) == 1 + byteIdx * 8 + bitIdx

Zeros(k) == [i \in 1..k |-> 0]
Extend(data, id) == IF Len(data) <= ByteIdx(id) THEN data \o Zeros(ByteIdx(id) + 1 - Len(data)) ELSE data
BfContains(data, id) == Len(data) > ByteIdx(id) /\ Bit(data[ByteIdx(id) + 1], BitIdx(id))
BfAdd(bf, id) ==
    LET d == Extend(bf.data, id)
        was == Bit(d[ByteIdx(id) + 1], BitIdx(id))
    IN [data |-> [d EXCEPT ![ByteIdx(id) + 1] = IF was THEN @ ELSE @ + Pow2(BitIdx(id))],
        len |-> IF was THEN bf.len ELSE bf.len + 1]
\* RangeWhile: bytes in order, bits 0..7 in order
BfIter(data) ==
    LET ids == {IdAt(i - 1, j) : i \in 1..Len(data), j \in 0..7}
        set == {x \in ids : Bit(data[ByteIdx(x) + 1], BitIdx(x))}
    IN SetToSortSeq(set, <)
BfFromBytes(b) == [data |-> b, len |-> Len(BfIter(b))]
BfEmpty == [data |-> <<>>, len |-> 0]

\* ---- the ideal set and the abstraction function ---------------------------------------
IdsOf(data) == {x \in {IdAt(i - 1, j) : i \in 1..Len(data), j \in 0..7} : Bit(data[ByteIdx(x) + 1], BitIdx(x))}
SortedSeq(S) == SetToSortSeq(S, <)

\* C19 on the model: the bit-field agrees with the ideal set S
Agrees(bf, S) == /\ IdsOf(bf.data) = S
                 /\ bf.len = Cardinality(S)
                 /\ BfIter(bf.data) = SortedSeq(S)
=============================================================================
