SPECIFICATION Spec
INVARIANT PropertyOK
INVARIANT ConformsToModel
