SPECIFICATION Spec
PROPERTY P_C01
PROPERTY P_C03
PROPERTY P_C06
PROPERTY P_C07
PROPERTY NoPanic
