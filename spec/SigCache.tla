------------------------------ MODULE SigCache ------------------------------
(* The verification cache (security/cert/cache.go) as a state machine: an LRU list of keys   *)
(* known to verify.  A key is <<kind (single / batch), digest of the message or batch, claimed *)
(* participants, signature bytes identity>>  (after the fixes D3, D4, D19; MC_SigCache's       *)
(* KeyMode "old" / "shared" are the keys as they were: participants dropped / no kind).        *)
EXTENDS Integers, Sequences, FiniteSets, SequencesExt

\* entries: sequence of keys, most recently used first
Touch(entries, key) == <<key>> \o SelectSeq(entries, LAMBDA k : k # key)
Insert(entries, key, capacity) ==
    IF \E i \in 1..Len(entries) : entries[i] = key THEN Touch(entries, key)
    ELSE LET kept == IF Len(entries) < capacity THEN entries ELSE SubSeq(entries, 1, Len(entries) - 1)
         IN <<key>> \o kept
Hit(entries, key) == \E i \in 1..Len(entries) : entries[i] = key

\* cached Verify/BatchVerify: verdict and next cache state, given the uncached verdict
CachedVerdict(entries, key, uncached) == Hit(entries, key) \/ uncached
CachedNext(entries, key, uncached, capacity) ==
    IF Hit(entries, key) THEN Touch(entries, key)
    ELSE IF uncached THEN Insert(entries, key, capacity) ELSE entries
=============================================================================
