SPECIFICATION Spec
PROPERTY P_C07
