-------------------------- MODULE MC_BlockStoreConc --------------------------
(* The block store under concurrency (security/blockchain/blockchain.go).  Votes are verified, *)
(* and the blocks they name fetched, in goroutines next to the event loop, which stores the    *)
(* blocks of the proposals it handles.  Get is two critical sections: (1) look the hash up,    *)
(* register the pending fetch, release the lock; (2) after the fetch, take the lock again and   *)
(* store what came back.  Store is one critical section (and cancels a pending fetch, which     *)
(* may or may not stop the fetch from delivering its answer).                                   *)
(*   Design = "code"         Get keeps the stored block when it finds one after the fetch       *)
(*   Design = "reindex"      negative control: the answer of the fetch is stored unconditionally *)
(*                           (the code before the fix of D22)                                    *)
(*   Design = "fallthrough"  negative control: a failed fetch that finds the block stored        *)
(*                           meanwhile continues into the store path (seeded change C13-f)       *)
EXTENDS Integers, FiniteSets, TLC
CONSTANTS Procs, Hashes, Remote, Design      \* Remote: the hashes some peer can deliver
VARIABLES stored, index, pending, pc, want, got, result
vars == <<stored, index, pending, pc, want, got, result>>
Init == /\ stored = {} /\ index = [h \in Hashes |-> 0] /\ pending = {}
        /\ pc = [p \in Procs |-> "idle"] /\ want = [p \in Procs |-> CHOOSE h \in Hashes : TRUE]
        /\ got = [p \in Procs |-> FALSE] /\ result = [p \in Procs |-> "none"]
Put(h) == stored' = stored \cup {h} /\ index' = [index EXCEPT ![h] = @ + 1]
\* Store: the block arrives with its proposal
Store(h) == /\ IF h \in stored THEN UNCHANGED <<stored, index>> ELSE Put(h)
            /\ UNCHANGED <<pending, pc, want, got, result>>
GetBegin(p, h) ==
    /\ pc[p] = "idle" /\ want' = [want EXCEPT ![p] = h]
    /\ IF h \in stored
       THEN pc' = [pc EXCEPT ![p] = "done"] /\ result' = [result EXCEPT ![p] = "found"] /\ UNCHANGED pending
       ELSE pc' = [pc EXCEPT ![p] = "fetching"] /\ pending' = pending \cup {h} /\ UNCHANGED result
    /\ UNCHANGED <<stored, index, got>>
\* the fetch returns (no lock held): with the block if a peer has it -- a cancellation may or may not prevent that
FetchEnd(p, answer) ==
    /\ pc[p] = "fetching" /\ (answer => want[p] \in Remote)
    /\ got' = [got EXCEPT ![p] = answer] /\ pc' = [pc EXCEPT ![p] = "back"]
    /\ UNCHANGED <<stored, index, pending, want, result>>
GetEnd(p) ==
    LET h == want[p] IN
    /\ pc[p] = "back" /\ pending' = pending \ {h} /\ pc' = [pc EXCEPT ![p] = "done"]
    /\ CASE Design = "code" ->
              IF got[p] /\ h \notin stored THEN Put(h) /\ result' = [result EXCEPT ![p] = "found"]
              ELSE /\ UNCHANGED <<stored, index>>
                   /\ result' = [result EXCEPT ![p] = IF h \in stored THEN "found" ELSE "missing"]
         [] Design = "reindex" ->
              IF got[p] THEN Put(h) /\ result' = [result EXCEPT ![p] = "found"]
              ELSE /\ UNCHANGED <<stored, index>>
                   /\ result' = [result EXCEPT ![p] = IF h \in stored THEN "found" ELSE "missing"]
         [] OTHER ->      \* "fallthrough"
              IF got[p] \/ h \in stored THEN Put(h) /\ result' = [result EXCEPT ![p] = "found"]
              ELSE UNCHANGED <<stored, index>> /\ result' = [result EXCEPT ![p] = "missing"]
    /\ UNCHANGED <<want, got>>
Return(p) == pc[p] = "done" /\ pc' = [pc EXCEPT ![p] = "idle"] /\ result' = [result EXCEPT ![p] = "none"]
             /\ UNCHANGED <<stored, index, pending, want, got>>
Next == \/ \E h \in Hashes : Store(h)
        \/ \E p \in Procs : GetEnd(p) \/ Return(p) \/ (\E h \in Hashes : GetBegin(p, h)) \/ (\E a \in BOOLEAN : FetchEnd(p, a))
Spec == Init /\ [][Next]_vars
\* every stored block sits in the per-view index exactly once (PruneToHeight reports a fork block once per index entry)
IndexedOnce == \A h \in Hashes : index[h] = IF h \in stored THEN 1 ELSE 0
\* Get answers "found" exactly when the block is in the store at the moment it answers (action property)
Answers == [][\A p \in Procs : (pc[p] # "done" /\ pc'[p] = "done") => (result'[p] = "found" <=> want'[p] \in stored')]_vars
=============================================================================
