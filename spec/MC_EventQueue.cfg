CONSTANTS MaxCap = 4  MaxPush = 9
SPECIFICATION Spec
INVARIANT Refines
