CONSTANTS Procs = {1, 2}  Keys = {"good1", "bad1"}  Valid = {"good1"}  Capacity = 1  Design = "reserve"
SPECIFICATION Spec
INVARIANTS Transparent Bounded
