CONSTANTS Procs = {1, 2}  Hashes = {"a", "b"}  Remote = {"a"}  Design = "reindex"
SPECIFICATION Spec
INVARIANT IndexedOnce
PROPERTY Answers
