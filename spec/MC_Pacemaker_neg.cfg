CONSTANTS N = 4  Q = 3  Views = {1, 2, 3}
SPECIFICATION Spec
INVARIANT NegInv
