CONSTANTS K = 3  MaxView = 4
SPECIFICATION Spec
INVARIANT NegInv
