CONSTANTS Procs = {1, 2, 3}  Keys = {"good1", "good2", "good3", "bad1"}  Valid = {"good1", "good2", "good3"}  Capacity = 2  Design = "check-insert"
SPECIFICATION Spec
INVARIANTS Transparent OnlyValid Bounded
