-------------------------------- MODULE Twins --------------------------------
(* The Twins scenario generator and verdict (twins/generator.go, scenario.go).              *)
(* A node is coded replica*10+twin (twin 0 = not a twin, 1/2 = the two twins).  A view is    *)
(* [leader, parts] with parts a sequence of node sets (as sequences); a scenario is a        *)
(* sequence of view ids into a table of distinct views.                                      *)
EXTENDS Integers, Sequences, FiniteSets, SequencesExt, FiniteSetsExt

\* ---- configuration -----------------------------------------------------------------------
\* assignNodeIDs: the first numTwins replicas are twin pairs, the rest ordinary nodes
AllNodes(numNodes, numTwins) == {r * 10 + 1 : r \in 1..numTwins} \cup {r * 10 + 2 : r \in 1..numTwins}
                                \cup {r * 10 : r \in (numTwins + 1)..numNodes}
Replicas(numNodes) == 1..numNodes

\* ---- well-formedness (property) ------------------------------------------------------------
WellFormedView(v, numNodes, numTwins, k) ==
    /\ v.leader \in Replicas(numNodes)                         \* the leader is a configured replica
    /\ Len(v.parts) = k
    /\ \A x \in AllNodes(numNodes, numTwins) :                 \* every node, both twins included, in exactly one partition
          Cardinality({i \in 1..Len(v.parts) : x \in ToSet(v.parts[i])}) = 1
    /\ \A i \in 1..Len(v.parts) : ToSet(v.parts[i]) \subseteq AllNodes(numNodes, numTwins)
                                  /\ Cardinality(ToSet(v.parts[i])) = Len(v.parts[i])
NoRepetition(seq) == \A i, j \in 1..Len(seq) : seq[i] = seq[j] => i = j
RECURSIVE Pow(_, _)
Pow(b, e) == IF e = 0 THEN 1 ELSE b * Pow(b, e - 1)

\* ---- odometer (implementation-shaped): scenario number j (0-based), view position i (1-based) ---
Digit(j, i, views, base) == (j \div Pow(base, views - i)) % base
OdometerScenario(j, views, lp) == [i \in 1..views |-> lp[Digit(j, i, views, Len(lp)) + 1]]

\* ---- verdict --------------------------------------------------------------------------------
\* logs: sequence of [id, nodes (number of nodes of that replica), log (sequence of block ids)];
\* twins (nodes = 2) are ignored by the verdict
NonTwinLogs(logs) == {logs[i].log : i \in {j \in 1..Len(logs) : logs[j].nodes = 1}}
AgreeAt(L, i) == \A a, b \in L : (Len(a) >= i /\ Len(b) >= i) => a[i] = b[i]
SomeAt(L, i) == \E a \in L : Len(a) >= i
MaxLen(L) == Max({0} \cup {Len(a) : a \in L})
RefUnsafe(logs) == \E i \in 1..MaxLen(NonTwinLogs(logs)) : ~AgreeAt(NonTwinLogs(logs), i)
\* length of the agreed prefix: positions 1..c are all agreed (and occupied), position c+1 is not
RefCommits(logs) ==
    LET L == NonTwinLogs(logs)
    IN CHOOSE c \in 0..MaxLen(L) : /\ \A i \in 1..c : AgreeAt(L, i)
                                   /\ (c = MaxLen(L) \/ ~AgreeAt(L, c + 1))
=============================================================================
