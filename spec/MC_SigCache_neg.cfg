CONSTANTS N = 2  Capacity = 2  KeyMode = "old"
SPECIFICATION Spec
INVARIANT Transparent
