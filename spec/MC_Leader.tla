------------------------------ MODULE MC_Leader ------------------------------
EXTENDS Leader
CONSTANT MaxN
VARIABLE n
Init == n = 1
Next == n < MaxN /\ n' = n + 1
Spec == Init /\ [][Next]_n
Leaders == [i \in 1..(4 * n + 1) |-> RR(i - 1, n)]
Inv == /\ \A i \in 1..Len(Leaders) : Valid(Leaders[i], n)
       /\ OneTurnEach(Leaders, n)
       \* the limb arithmetic used for views beyond 2^31 agrees with plain arithmetic
       /\ \A v \in {0, 1, 65535, 65536, 65537, 1000000} : \A off \in 0..3 :
             RRBig(<<0, 0, v \div 65536, v % 65536>>, off, n) = RR(v + off, n)
=============================================================================
