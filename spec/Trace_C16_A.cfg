SPECIFICATION Spec
INVARIANT PropertyOK
