----------------------------- MODULE Trace_C09k -----------------------------
(* Replay of contributions fed to one REAL Kauri node (root, inner node or leaf) for one block. *)
(*  new {n,q,self,children,subtree}; begin {voted,qcs,contribs,agg}; contrib {from,signers,valid, *)
(*  view,qcs,contribs,agg}; timer {..}                                                           *)
EXTENDS VoteCollector, Json, TLC
Trace == ndJsonDeserialize("trace.ndjson")
VARIABLES l, cfg, agg, active
vars == <<l, cfg, agg, active>>
Init == l = 0 /\ cfg = [n |-> 1, q |-> 1, self |-> 1] /\ agg = {} /\ active = FALSE
Line == Trace[l + 1]
AsC(x) == [signers |-> ToSet(x.signers), valid |-> x.valid /\ x.view = 1]
Step ==
    /\ l < Len(Trace)
    /\ l' = l + 1
    /\ CASE Line.op = "new" -> cfg' = [n |-> Line.n, q |-> Line.q, self |-> Line.self] /\ agg' = {} /\ active' = FALSE
         [] Line.op = "begin" -> cfg' = cfg /\ agg' = (IF Line.voted THEN {cfg.self} ELSE {}) /\ active' = Line.voted
         [] Line.op = "contrib" -> cfg' = cfg /\ active' = active /\ agg' = (IF active THEN KauriAfter(agg, AsC(Line)) ELSE agg)
         [] Line.op = "timer" -> cfg' = cfg /\ active' = active
                                 \* on expiry a node that has not sent yet sends what it has and starts over
                                 /\ agg' = (IF Len(Line.contribs) > 0 THEN {} ELSE agg)
         [] OTHER -> UNCHANGED <<cfg, agg, active>>
Spec == Init /\ [][Step]_vars
PropertyStep ==
    (l < Len(Trace) /\ Line.op \in {"begin", "contrib", "timer"}) =>
    LET merged == Line.op = "contrib" /\ active /\ KauriMerges(agg, AsC(Line))
        after == IF Line.op = "begin" THEN (IF Line.voted THEN {cfg.self} ELSE {})
                 ELSE IF merged THEN agg \cup ToSet(Line.signers) ELSE agg
    IN
    \* a certificate appears exactly when a merge brings the distinct verified votes to the quorum (or beyond)
    /\ (Len(Line.qcs) > 0) <=> (merged /\ Cardinality(after) >= cfg.q)
    /\ \A i \in 1..Len(Line.qcs) : /\ Line.qcs[i].valid /\ Line.qcs[i].cur
                                   /\ ToSet(Line.qcs[i].signers) = after
                                   /\ Cardinality(ToSet(Line.qcs[i].signers)) = Len(Line.qcs[i].signers)
    \* every partial aggregate handed to the parent verifies and is what has been merged
    /\ \A i \in 1..Len(Line.contribs) : /\ Line.contribs[i].valid
                                        /\ ToSet(Line.contribs[i].signers) = after
    /\ (Line.op = "contrib" => Line.panic = "")
ConformStep ==
    \* (once a certificate exists the leader starts the next block: the aggregate shown is then the new round's)
    (l < Len(Trace) /\ Line.op \in {"begin", "contrib"} /\ Len(Line.qcs) = 0) => ToSet(Line.agg) = agg'
\* what left the node is verified once more after all traffic of the sequence: it must still verify
RecheckStep == (l < Len(Trace) /\ Line.op = "recheck") => Line.bad = 0
PropertyOK == [][PropertyStep /\ RecheckStep]_vars
ConformsToModel == [][ConformStep]_vars
=============================================================================
