SPECIFICATION Spec
INVARIANT PropertyOK
