----------------------------- MODULE MC_Quorum -----------------------------
(* Exhaustive check of the model formulas for n in 1..MaxN (TLC), one state per n. *)
EXTENDS Quorum
CONSTANT MaxN
VARIABLE n
Init == n = 1
Next == n < MaxN /\ n' = n + 1
Spec == Init /\ [][Next]_n
Inv == ModelOK(n)
\* negative control: a wrong quorum formula must be refuted
BadQ(m) == (m + F(m) + 1) \div 2
BadInv == QuorumOK(n, F(n), BadQ(n))
=============================================================================
