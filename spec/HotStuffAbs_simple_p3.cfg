CONSTANTS N = 4  Byz = {4}  MaxView = 6  MaxBlocksPerView = 2  Ruleset = "simple"  Weak = "none"  Prefix = 3  EquivViews = {4}  DumpEvery = 0  GroupVotes = FALSE
SPECIFICATION SpecOrdered
INVARIANT Agreement
INVARIANT OneVotePerView
VIEW view
