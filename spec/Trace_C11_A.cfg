SPECIFICATION Spec
INVARIANT PropertyOK
