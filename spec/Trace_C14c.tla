----------------------------- MODULE Trace_C14c -----------------------------
(* Concurrent producers (real goroutines, race detector on) against the running loop, queue *)
(* below capacity.  One line per run: the AddEvent calls with atomic-counter stamps taken    *)
(* at call and return, and the order in which the (single) consumer handled the events.      *)
(* Property: nothing lost, nothing duplicated, and the handling order respects the real-time *)
(* order of the AddEvent calls (in particular each producer's own order); and for every event *)
(* its prioritised handlers -- one of them registered to run inside AddEvent -- are through    *)
(* before its ordinary handler starts.                                                         *)
EXTENDS Integers, Sequences, FiniteSets, Json, TLC
Trace == ndJsonDeserialize("trace.ndjson")
VARIABLE l
Init == l = 0
Next == l < Len(Trace) /\ l' = l + 1
Spec == Init /\ [][Next]_l
Cur == Trace[l]
Pos(h, p, i) == CHOOSE j \in 1..Len(h) : h[j] = <<p, i>>
RunOK(r, h) ==
    /\ Len(h) = Len(r.adds)                                                         \* nothing lost ...
    /\ \A a \in 1..Len(r.adds) : Cardinality({j \in 1..Len(h) : h[j] = <<r.adds[a].p, r.adds[a].i>>}) = 1   \* ... or duplicated
    /\ \A a, b \in 1..Len(r.adds) :
          r.adds[a].end < r.adds[b].start => Pos(h, r.adds[a].p, r.adds[a].i) < Pos(h, r.adds[b].p, r.adds[b].i)
\* phases: per event <<end of its prioritised run-in-AddEvent handler (in the producer's goroutine), end of its prioritised
\* handler in the loop, start of its ordinary handler>> on one atomic clock: prioritised handlers run before ordinary ones
PhasesOK(r) == /\ Len(r.phases) = Len(r.adds)
               /\ \A i \in 1..Len(r.phases) : r.phases[i][1] > 0 /\ r.phases[i][1] < r.phases[i][3] /\ r.phases[i][2] < r.phases[i][3]
PropertyOK == l > 0 => RunOK(Cur, Cur.handled) /\ Cur.handledPrio = Cur.handled /\ PhasesOK(Cur)
=============================================================================
