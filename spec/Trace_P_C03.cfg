SPECIFICATION Spec
PROPERTY P_C03
