------------------------------ MODULE MC_Wire ------------------------------
(* Enumerates the grammar and writes it out for the harness (spec -> code direction).          *)
EXTENDS Wire, Json, SequencesExt, TLC
MsgSeq == SetToSeq(Messages)
ObjSeq == SetToSeq(Objects)
ASSUME ndJsonSerialize("wire_messages.ndjson", [i \in 1..Len(MsgSeq) |-> [id |-> i, m |-> MsgSeq[i], verifies |-> Verifies(MsgSeq[i])]])
ASSUME ndJsonSerialize("wire_objects.ndjson", [i \in 1..Len(ObjSeq) |-> [id |-> i, o |-> ObjSeq[i]]])
ASSUME PrintT(<<"messages", Cardinality(Messages), "objects", Cardinality(Objects)>>)
VARIABLE x
Init == x = 0
Next == UNCHANGED x
Spec == Init /\ [][Next]_x
=============================================================================
