----------------------------- MODULE MC_CmdCache -----------------------------
(* All interleavings, at lock granularity, of additions, marks and two Get processes blocked   *)
(* on the capacity-1 ready channel.  Invariants: full FIFO batches of fresh commands, at most  *)
(* once, nothing stale, nothing lost, and no lost wake-up.                                     *)
EXTENDS CmdCache, TLC
CONSTANTS Clients, MaxSeq, BS, Getters
Cmds == Clients \X (1..MaxSeq)
VARIABLES cache, marks, ready, pc, added, handed, lastBatch
vars == <<cache, marks, ready, pc, added, handed, lastBatch>>
Init == /\ cache = <<>> /\ marks = [c \in Clients |-> 0] /\ ready = 0
        /\ pc = [g \in Getters |-> "idle"] /\ added = {} /\ handed = <<>> /\ lastBatch = <<>>
\* clients send each command once, in order (drivers never re-add a live id)
Add(c) == /\ c \notin added /\ (c[2] = 1 \/ <<c[1], c[2] - 1>> \in added)
          /\ added' = added \cup {c}
          /\ cache' = AddCache(cache, marks, c)
          /\ ready' = IF ~IsDup(marks, c) /\ Len(cache') >= BS THEN 1 ELSE ready
          /\ UNCHANGED <<marks, pc, handed, lastBatch>>
\* a batch that was handed out earlier gets marked as proposed (possibly late, possibly never)
Mark(i) == /\ i \in 1..Len(handed) /\ marks' = MarkAll(marks, handed[i])
           /\ UNCHANGED <<cache, ready, pc, added, handed, lastBatch>>
\* a committed block of another leader marks commands this cache has not handed out
MarkForeign(c) == /\ c \in added /\ marks' = MarkAll(marks, <<c>>) /\ UNCHANGED <<cache, ready, pc, added, handed, lastBatch>>
GetStart(g) == pc[g] = "idle" /\ pc' = [pc EXCEPT ![g] = "wait"] /\ UNCHANGED <<cache, marks, ready, added, handed, lastBatch>>
GetWake(g) == pc[g] = "wait" /\ ready = 1 /\ ready' = 0 /\ pc' = [pc EXCEPT ![g] = "woken"] /\ UNCHANGED <<cache, marks, added, handed, lastBatch>>
GetTry(g) == /\ pc[g] = "woken"
             /\ IF Len(cache) < BS THEN pc' = [pc EXCEPT ![g] = "wait"] /\ UNCHANGED <<cache, ready, handed, lastBatch>>
                ELSE LET r == Extract(cache, marks, BS)
                     IN IF r.ok THEN /\ cache' = r.cache /\ ready' = (IF Len(r.cache) >= BS THEN 1 ELSE ready)
                                     /\ handed' = Append(handed, r.batch) /\ lastBatch' = Fresh(cache, marks)
                                     /\ pc' = [pc EXCEPT ![g] = "idle"]
                        ELSE pc' = [pc EXCEPT ![g] = "wait"] /\ UNCHANGED <<cache, ready, handed, lastBatch>>
             /\ UNCHANGED <<marks, added>>
Cancel(g) == pc[g] = "wait" /\ pc' = [pc EXCEPT ![g] = "idle"] /\ UNCHANGED <<cache, marks, ready, added, handed, lastBatch>>
Next == \/ \E c \in Cmds : Add(c) \/ MarkForeign(c)
        \/ \E i \in 1..3 : Mark(i)
        \/ \E g \in Getters : GetStart(g) \/ GetWake(g) \/ GetTry(g) \/ Cancel(g)
Spec == Init /\ [][Next]_vars
AllHanded == [i \in 1..Len(handed) |-> handed[i]]
Flat == FlattenSeq(handed)
FullFIFO == \A i \in 1..Len(handed) : Len(handed[i]) = BS
AtMostOnce == \A i, j \in 1..Len(Flat) : Flat[i] = Flat[j] => i = j
\* the last batch handed out was the oldest BS fresh commands at that moment
OldestFirst == handed # <<>> => Last(handed) = SubSeq(lastBatch, 1, BS)
\* nothing fresh is lost: every accepted command that is neither handed out nor stale is still in the cache
NoLoss == \A c \in added : (c \notin ToSet(Flat) /\ ~IsDup(marks, c)) => c \in ToSet(cache)
\* no lost wake-up: if enough fresh commands are present and a request waits, the token is there or another
\* request is between wake-up and extraction (and will re-signal)
NoLostWakeup == ((\E g \in Getters : pc[g] = "wait") /\ IdealCanReturn(cache, marks, BS)) => (ready = 1 \/ \E g \in Getters : pc[g] = "woken")
Inv == FullFIFO /\ AtMostOnce /\ OldestFirst /\ NoLoss /\ NoLostWakeup
=============================================================================
