SPECIFICATION Spec
PROPERTY PropertyOK
