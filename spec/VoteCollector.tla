---------------------------- MODULE VoteCollector ----------------------------
(* Vote collection (protocol/votingmachine/votingmachine.go) and Kauri aggregation            *)
(* (protocol/comm/kauri.go) for ONE block.                                                    *)
(* A vote is [from (transport id), signers (sequence of ids the signature names), valid        *)
(* (every named signer really signed this block), block].                                      *)
EXTENDS Integers, Sequences, FiniteSets, SequencesExt

\* ---- property-level: which votes count -----------------------------------------------------
\* a vote counts for block b iff it is a single valid signature by its sender, for b, by a member
Countable(v, b, n) == v.block = b /\ v.valid /\ Len(v.signers) = 1 /\ v.signers[1] = v.from /\ v.from \in 1..n
AfterVote(V, v, b, n) == IF Countable(v, b, n) THEN V \cup {v.from} ELSE V
\* the certificate forms at the step at which the counted votes reach the quorum
Forms(V, v, b, n, q) == Countable(v, b, n) /\ v.from \notin V /\ Cardinality(V \cup {v.from}) = q

\* ---- as coded (after the fix of D13): list of verified votes, dedup by signer, QC at quorum ----
\* held: sequence of signer ids of the verified votes for b
CodeAccepts(v, b, n) == v.block = b /\ v.valid /\ Len(v.signers) = 1 /\ v.signers[1] = v.from   \* single signature by the sender
CodeHeldAfter(held, v, b, n, q) ==
    IF ~CodeAccepts(v, b, n) \/ (\E i \in 1..Len(held) : held[i] = v.signers[1]) THEN held
    ELSE IF Len(held) + 1 >= q THEN <<>> ELSE Append(held, v.signers[1])
CodeForms(held, v, b, n, q) == CodeAccepts(v, b, n) /\ ~(\E i \in 1..Len(held) : held[i] = v.signers[1]) /\ Len(held) + 1 >= q

\* ---- Kauri node: aggregate = set of participants merged so far --------------------------------
\* a contribution is [signers (set), valid]; it is merged iff it verifies and does not overlap
KauriMerges(agg, c) == c.valid /\ c.signers # {} /\ c.signers \cap agg = {}
KauriAfter(agg, c) == IF KauriMerges(agg, c) THEN agg \cup c.signers ELSE agg
=============================================================================
