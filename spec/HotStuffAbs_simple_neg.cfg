CONSTANTS N = 4  Byz = {4}  MaxView = 6  MaxBlocksPerView = 2  Ruleset = "simple"  Weak = "nolock"  Prefix = 3  EquivViews = {}  DumpEvery = 0  GroupVotes = FALSE
SPECIFICATION SpecOrdered
INVARIANT Agreement
VIEW view
