----------------------------- MODULE Trace_C16 -----------------------------
(* Line check of real GetLeader answers.                                                    *)
(*  rr:       n, limbs (start view), leaders (consecutive views), leaders2 (second instance) *)
(*  fixed:    leader, got[]                                                                 *)
(*  tree:     root, got[] , n                                                               *)
(*  carousel: n, chainLength, round, head{view,signed,signers,authors}, got, got2, panic    *)
(*  rep:      got[], got2[], panic                                                          *)
EXTENDS Leader, Json, TLC
Trace == ndJsonDeserialize("trace.ndjson")
VARIABLE l
Init == l = 0
Next == l < Len(Trace) /\ l' = l + 1
Spec == Init /\ [][Next]_l
Cur == Trace[l]

PropertyOK == l > 0 =>
    CASE Cur.kind = "rr" ->
           /\ Cur.leaders = Cur.leaders2                                   \* all replicas agree
           /\ \A i \in 1..Len(Cur.leaders) : Valid(Cur.leaders[i], Cur.n)  \* configured replica
           /\ OneTurnEach(Cur.leaders, Cur.n)
           /\ ~Cur.panic
      [] Cur.kind = "fixed" -> \A i \in 1..Len(Cur.got) : Cur.got[i] = Cur.leader /\ ~Cur.panic
      [] Cur.kind = "tree" -> (\A i \in 1..Len(Cur.got) : Cur.got[i] = Cur.got[1] /\ Valid(Cur.got[i], Cur.n)) /\ ~Cur.panic
      [] Cur.kind = "carousel" ->
           /\ ~Cur.panic
           /\ Cur.got = Cur.got2                                           \* same inputs, same answer
           /\ Valid(Cur.got, Cur.n)
           /\ CarouselActive(Cur.head, Cur.round, Cur.chainLength) => Cur.got \in CarouselCandidates(Cur.head)
      [] Cur.kind = "rep" -> ~Cur.panic /\ Cur.got = Cur.got2
      [] OTHER -> FALSE

ConformsToModel == l > 0 =>
    CASE Cur.kind = "rr" -> \A i \in 1..Len(Cur.leaders) : Cur.leaders[i] = RRBig(Cur.limbs, i - 1, Cur.n)
      [] Cur.kind = "tree" -> \A i \in 1..Len(Cur.got) : Cur.got[i] = Cur.root
      [] Cur.kind = "carousel" ->
           ~CarouselActive(Cur.head, Cur.round, Cur.chainLength) => Cur.got = RRBig(Cur.roundLimbs, 0, Cur.n)
      [] OTHER -> TRUE
=============================================================================
