CONSTANTS N = 4  Byz = {4}  MaxView = 7  MaxBlocksPerView = 2  Ruleset = "simple"  LockRule = TRUE  EquivViews = {4}
SPECIFICATION SpecOrdered
INVARIANT Agreement
INVARIANT OneVotePerView
