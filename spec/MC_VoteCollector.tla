--------------------------- MODULE MC_VoteCollector ---------------------------
(* All arrival orders of honest votes mixed with hostile ones (duplicates, invalid, two-signer, *)
(* relayed under another id, wrong block) at a collector with N replicas: the code-shaped        *)
(* collector forms the certificate exactly when the property-level count reaches the quorum.     *)
(* NegInv (cfg _neg): the collector that accepts multi-signer votes (before the fix of D13) is    *)
(* refuted: it can be wedged.                                                                     *)
EXTENDS VoteCollector, TLC
CONSTANTS N, Q
Votes == {[from |-> f, signers |-> s, valid |-> ok, block |-> b] :
             f \in 1..N, s \in {<<x>> : x \in 1..N} \cup {<<x, y>> : x, y \in 1..N}, ok \in BOOLEAN, b \in {1, 2}}
VARIABLES V, held, formed, expected, done, oldHeld, oldStuck
vars == <<V, held, formed, expected, done, oldHeld, oldStuck>>
Init == V = {} /\ held = <<>> /\ formed = FALSE /\ expected = FALSE /\ done = FALSE /\ oldHeld = <<>> /\ oldStuck = FALSE
\* the old collector: any valid vote is held under its first signer; at the quorum the signatures are combined,
\* which fails (and keeps failing) if two held votes name the same signer
OldAccepts(v) == v.block = 1 /\ v.valid
OldHas(h, s) == \E i \in 1..Len(h) : h[i][1] = s
Overlap(h) == \E i, j \in 1..Len(h) : i # j /\ ToSet(h[i]) \cap ToSet(h[j]) # {}
Deliver(v) ==
    /\ ~done
    /\ expected' = Forms(V, v, 1, N, Q)
    /\ formed' = CodeForms(held, v, 1, N, Q)
    /\ done' = Forms(V, v, 1, N, Q)
    /\ V' = AfterVote(V, v, 1, N)
    /\ held' = CodeHeldAfter(held, v, 1, N, Q)
    /\ oldHeld' = IF OldAccepts(v) /\ ~OldHas(oldHeld, v.signers[1]) THEN Append(oldHeld, v.signers) ELSE oldHeld
    /\ oldStuck' = (Forms(V, v, 1, N, Q) /\ (Len(oldHeld') < Q \/ Overlap(oldHeld')))
Next == \E v \in Votes : Deliver(v)
Spec == Init /\ [][Next]_vars
Inv == formed = expected
NegInv == ~oldStuck
=============================================================================
