----------------------------- MODULE Trace_C18 -----------------------------
(* Line check of the real generator's output and of the real checkCommits verdicts.          *)
(*  gen:     n,t,k,v, announced, drained, table (distinct views), yielded (seq of seq of view ids), *)
(*           again (second identical generator yields the same), lp (order from a 1-view generator) *)
(*  shuffle: yielded, yielded2 (same seed), unshuffled, drained                                 *)
(*  shared:  yielded (by 2-8 workers pulling from one generator concurrently), unshuffled, drained *)
(*  json:    before, after (sequences of [leader, parts])                                      *)
(*  verdict: logs, safe, commits                                                               *)
EXTENDS Twins, Json, TLC
Trace == ndJsonDeserialize("trace.ndjson")
VARIABLE l
Init == l = 0
Next == l < Len(Trace) /\ l' = l + 1
Spec == Init /\ [][Next]_l
Cur == Trace[l]

PropertyOK == l > 0 =>
    CASE Cur.kind = "gen" ->
           /\ \A i \in 1..Len(Cur.table) : WellFormedView(Cur.table[i], Cur.n, Cur.t, Cur.k)
           /\ NoRepetition(Cur.yielded)
           /\ Cur.again                                            \* deterministic
           /\ Cur.drained => Len(Cur.yielded) = Cur.announced       \* exactly the announced number
           /\ ~Cur.drained => Len(Cur.yielded) <= Cur.announced
           /\ \A i \in 1..Len(Cur.yielded) : Len(Cur.yielded[i]) = Cur.v
      [] Cur.kind = "shuffle" ->
           /\ Cur.yielded = Cur.yielded2                            \* same seed, same order
           /\ NoRepetition(Cur.yielded)
           /\ Cur.drained => ToSet(Cur.yielded) = ToSet(Cur.unshuffled) /\ Len(Cur.yielded) = Len(Cur.unshuffled)
      [] Cur.kind = "shared" ->                                      \* several workers pulling from one generator at the same time
           /\ NoRepetition(Cur.yielded)
           /\ Cur.drained /\ ToSet(Cur.yielded) = ToSet(Cur.unshuffled) /\ Len(Cur.yielded) = Len(Cur.unshuffled)
      [] Cur.kind = "json" -> Cur.before = Cur.after
      [] Cur.kind = "panic" -> FALSE                                 \* the generator must not panic on valid settings
      [] Cur.kind = "verdict" ->
           /\ Cur.safe <=> ~RefUnsafe(Cur.logs)
           /\ Cur.commits = RefCommits(Cur.logs)
      [] OTHER -> FALSE

ConformsToModel == l > 0 =>
    CASE Cur.kind = "gen" ->
           /\ Cur.big \/ Cur.announced = Pow(Len(Cur.lp), Cur.v)     \* (big: beyond TLC's 32-bit integers)
           /\ \A j \in 1..Len(Cur.yielded) : Cur.yielded[j] = OdometerScenario(j - 1, Cur.v, Cur.lp)
      [] OTHER -> TRUE
=============================================================================
