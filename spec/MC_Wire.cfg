SPECIFICATION Spec
