------------------------------ MODULE MC_IDSet ------------------------------
(* Exhaustive: every insertion order over the boundary ids, interleaved with rebuilding *)
(* the bit-field from its own byte form.                                               *)
EXTENDS IDSet
CONSTANT Ids
VARIABLES bf, S
Init == bf = BfEmpty /\ S = {}
AddId(id) == bf' = BfAdd(bf, id) /\ S' = S \cup {id}
Rebuild == bf' = BfFromBytes(bf.data) /\ S' = S
Next == (\E id \in Ids : AddId(id)) \/ Rebuild
Spec == Init /\ [][Next]_<<bf, S>>
Inv == Agrees(bf, S) /\ \A id \in Ids : BfContains(bf.data, id) <=> id \in S
=============================================================================
