----------------------------- MODULE BlockStore -----------------------------
(* The block store (security/blockchain/blockchain.go) over a block forest.                 *)
(* forest: function block id -> [view, parent]; id 0 is genesis (view 0); parent -1 names a   *)
(* block outside the universe (never obtainable).  Views grow along parent links.            *)
EXTENDS Integers, Sequences, FiniteSets, SequencesExt

RECURSIVE ChainOf(_, _)
\* the parent chain of b inside the universe, b first
ChainOf(forest, b) == IF b = -1 \/ b \notin DOMAIN forest THEN <<>>
                      ELSE IF b = 0 THEN <<0>> ELSE <<b>> \o ChainOf(forest, forest[b].parent)
Ancestors(forest, b) == ToSet(ChainOf(forest, b))           \* reflexive

\* ---- ancestry query: reference and the condition under which the store can know the answer ---
RefExtends(forest, b, t) == t \in Ancestors(forest, b)
\* the walk from b visits the chain while the view is above the target's view; it needs every visited
\* block's parent to be obtainable (stored or fetchable)
RECURSIVE Walkable(_, _, _, _)
Walkable(forest, avail, cur, tview) ==
    IF forest[cur].view <= tview THEN TRUE
    ELSE LET p == forest[cur].parent
         IN p # -1 /\ p \in avail /\ Walkable(forest, avail, p, tview)
\* as coded: walk parents while the view is above the target's, then compare hashes
RECURSIVE CodeExtends(_, _, _, _)
CodeExtends(forest, avail, cur, t) ==
    IF forest[cur].view <= forest[t].view THEN cur = t
    ELSE LET p == forest[cur].parent
         IN IF p = -1 \/ p \notin avail THEN FALSE ELSE CodeExtends(forest, avail, p, t)

\* ---- commit / prune ---------------------------------------------------------------------------
\* blocks newly committed when b is committed after `last` (ancestor first)
NewlyCommitted(forest, b, lastView) == Reverse(SelectSeq(ChainOf(forest, b), LAMBDA x : forest[x].view > lastView))
\* property: abandoned blocks are never on the committed chain and are reported at most once
PruneSound(forest, b, aborted, already) ==
    /\ ToSet(aborted) \cap Ancestors(forest, b) = {}
    /\ ToSet(aborted) \cap already = {}
    /\ Cardinality(ToSet(aborted)) = Len(aborted)
\* as coded (after the fix of D9): every indexed block above the prune height and not above the new
\* height that is not on the committed chain
CodeAborted(forest, index, pruneH, b) ==
    {x \in index : forest[x].view > pruneH /\ forest[x].view <= forest[b].view /\ x \notin Ancestors(forest, b)}
=============================================================================
