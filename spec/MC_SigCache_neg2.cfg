CONSTANTS N = 2  Capacity = 2  KeyMode = "shared"
SPECIFICATION Spec
INVARIANT Transparent
