----------------------------- MODULE Trace_C20 -----------------------------
(* Line check (skeleton L) for C20: every line is a chunk of values computed by the real     *)
(* hotstuff.NumFaulty / hotstuff.QuorumSize / RuntimeConfig.QuorumSize.                      *)
(*   {"kind":"chunk","n0":k,"f":[..],"q":[..]}   values for n = n0, n0+1, ...                *)
(*   {"kind":"config","n":k,"q":v}               RuntimeConfig with k replicas               *)
(*   {"kind":"use","n":n,"what":"qc"|"tc","k":k,"ok":b}  real Verify* on a certificate with k *)
(*                                                distinct valid signatures                    *)
(* Pass A (PropertyOK): the numbers satisfy the property.  Pass B (ModelOK): they equal the  *)
(* model's F and Q, which MC_Quorum / QuorumApa check for all n.                             *)
EXTENDS Quorum, Sequences, Json, TLC
Trace == ndJsonDeserialize("trace.ndjson")
VARIABLE l
Init == l = 1
Next == l <= Len(Trace) /\ l' = l + 1
Spec == Init /\ [][Next]_l

Line == Trace[l]
\* the quorum size the property defines for n (unique by minimality)
PropQ(n) == CHOOSE q \in 0..(n + 1) : \E f \in 0..n : QuorumOK(n, f, q)
ChunkProp(r) == \A i \in 1..Len(r.f) : QuorumOK(r.n0 + i - 1, r.f[i], r.q[i])
ChunkModel(r) == \A i \in 1..Len(r.f) : r.f[i] = F(r.n0 + i - 1) /\ r.q[i] = Q(r.n0 + i - 1)

PropertyOK == l <= Len(Trace) =>
    CASE Line.kind = "chunk" -> Len(Line.f) = Len(Line.q) /\ ChunkProp(Line)
      [] Line.kind = "config" -> \E f \in 0..Line.n : QuorumOK(Line.n, f, Line.q)
      \* threshold use: a certificate with k distinct valid signatures is accepted iff k reaches THE quorum
      [] Line.kind = "use" -> Line.ok <=> (Line.k >= PropQ(Line.n))
      [] OTHER -> FALSE
ConformsToModel == l <= Len(Trace) =>
    CASE Line.kind = "chunk" -> ChunkModel(Line)
      [] Line.kind = "config" -> Line.q = Q(Line.n)
      [] Line.kind = "use" -> Line.ok <=> (Line.k >= Q(Line.n))
      [] OTHER -> FALSE
=============================================================================
