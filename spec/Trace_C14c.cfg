SPECIFICATION Spec
INVARIANT PropertyOK
