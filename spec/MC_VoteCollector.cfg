CONSTANTS N = 3  Q = 2
SPECIFICATION Spec
INVARIANT Inv
