----------------------------- MODULE Trace_C14 -----------------------------
(* State-machine replay of (1) push/pop/len sequences on the real ring buffer and            *)
(* (2) register/unregister/add/delay/tick sequences on a real EventLoop with recording       *)
(* handlers.  Lines:                                                                          *)
(*  {"op":"qnew","cap":c} {"op":"qpush","v":x,"dropped":d,"len":n} {"op":"qpop","v":x,"ok":b,"len":n} *)
(*  {"op":"new","cap":c}  {"op":"register","h":h,"type":t,"prio":b,"inadd":b}  {"op":"unregister","h":h} *)
(*  {"op":"add","ev":[t,id],"inv":[[h,id]..],"dropped":d,"len":n}  {"op":"delay","until":t,"ev":[t,id]}  *)
(*  {"op":"tick","ran":b,"inv":[..],"droppedN":k,"len":n}                                    *)
EXTENDS EventLoop, Json, TLC
Trace == ndJsonDeserialize("trace.ndjson")
VARIABLES l, cap, fifo, rb, slots, hs, waiting
vars == <<l, cap, fifo, rb, slots, hs, waiting>>
NoWaiting == [t \in 1..3 |-> <<>>]
Init == l = 0 /\ cap = 1 /\ fifo = <<>> /\ rb = RbNew(1) /\ slots = <<>> /\ hs = <<>> /\ waiting = NoWaiting
Line == Trace[l + 1]
\* events deferred (DelayUntil) by run-in-AddEvent handlers while they were invoked: inv entries are
\* <<handler, event id, id of the event the handler deferred (0 = none)>>
Nested(inv, until) ==
    LET sel == SelectSeq(inv, LAMBDA x : x[3] # 0 /\ hs[x[1]].nestUntil = until)
    IN [i \in 1..Len(sel) |-> <<hs[sel[i][1]].nestType, sel[i][3]>>]
Step ==
    /\ l < Len(Trace)
    /\ l' = l + 1
    /\ CASE Line.op \in {"qnew", "new"} ->
              /\ cap' = Line.cap /\ fifo' = <<>> /\ rb' = RbNew(Line.cap) /\ slots' = <<>> /\ hs' = <<>> /\ waiting' = NoWaiting
         [] Line.op = "qpush" -> /\ fifo' = FifoPush(fifo, Line.v, cap).s /\ rb' = RbPush(rb, Line.v).q
                                 /\ UNCHANGED <<cap, slots, hs, waiting>>
         [] Line.op = "qpop" -> /\ fifo' = FifoPop(fifo).s /\ rb' = RbPop(rb).q /\ UNCHANGED <<cap, slots, hs, waiting>>
         [] Line.op = "register" ->
              /\ slots' = RegisterSlot(slots, Line.h, Line.type)
              /\ hs' = [h \in (DOMAIN hs) \cup {Line.h} |-> IF h = Line.h THEN [type |-> Line.type, prio |-> Line.prio, inadd |-> Line.inadd,
                                                                                 nestUntil |-> Line.nestUntil, nestType |-> Line.nestType] ELSE hs[h]]
              /\ UNCHANGED <<cap, fifo, rb, waiting>>
         [] Line.op = "unregister" -> slots' = UnregisterSlot(slots, hs, Line.h) /\ UNCHANGED <<cap, fifo, rb, hs, waiting>>
         [] Line.op = "add" -> /\ fifo' = FifoPush(fifo, Line.ev, cap).s
                               /\ waiting' = [t \in 1..3 |-> waiting[t] \o Nested(Line.inv, t)]
                               /\ UNCHANGED <<cap, rb, slots, hs>>
         [] Line.op = "delay" -> waiting' = [waiting EXCEPT ![Line.until] = Append(@, Line.ev)] /\ UNCHANGED <<cap, fifo, rb, slots, hs>>
         [] Line.op = "tick" ->
              IF fifo = <<>> THEN UNCHANGED <<cap, fifo, rb, slots, hs, waiting>>
              ELSE /\ fifo' = PushAll(Tail(fifo), waiting[Head(fifo)[1]], cap)
                   \* the awaited list is taken before the re-adding; events deferred by handlers that run during the
                   \* re-adding wait for the NEXT event of that type
                   /\ waiting' = [t \in 1..3 |-> (IF t = Head(fifo)[1] THEN <<>> ELSE waiting[t]) \o Nested(Line.inv, t)]
                   /\ UNCHANGED <<cap, rb, slots, hs>>
         [] OTHER -> UNCHANGED <<cap, fifo, rb, slots, hs, waiting>>
Spec == Init /\ [][Step]_vars
Proj(inv) == [i \in 1..Len(inv) |-> <<inv[i][1], inv[i][2]>>]

\* the checks are evaluated on the transition (pre-state needed), as an action property
Prev == Trace[l + 1]
PropertyStep ==
    (l < Len(Trace)) =>
    CASE Prev.op = "qpush" -> Prev.dropped = FifoPush(fifo, Prev.v, cap).dropped /\ Prev.len = Len(FifoPush(fifo, Prev.v, cap).s)
      [] Prev.op = "qpop" -> /\ Prev.ok = FifoPop(fifo).ok /\ Prev.v = FifoPop(fifo).entry /\ Prev.len = Len(FifoPop(fifo).s)
      [] Prev.op = "add" -> /\ ValidDispatch(Prev.inv, slots, hs, Prev.ev, TRUE)
                            /\ Prev.dropped = (IF Len(fifo) = cap THEN Head(fifo)[2] ELSE 0)   \* only the oldest, and exactly it
                            /\ Prev.len = Len(FifoPush(fifo, Prev.ev, cap).s)
      [] Prev.op = "tick" ->
           IF fifo = <<>> THEN ~Prev.ran /\ Prev.inv = <<>>
           ELSE LET e == Head(fifo)                                  \* events are handled in the order added
                    k == Cardinality(Matching(slots, hs, e[1], FALSE))
                IN /\ Prev.ran /\ Len(Prev.inv) >= k
                   /\ ValidDispatch(SubSeq(Prev.inv, 1, k), slots, hs, e, FALSE)
                   /\ ValidReAdds(SubSeq(Prev.inv, k + 1, Len(Prev.inv)), slots, hs, waiting[e[1]])
                   /\ Prev.len = Len(PushAll(Tail(fifo), waiting[e[1]], cap))
      [] OTHER -> TRUE
ConformStep ==
    (l < Len(Trace)) =>
    CASE Prev.op = "qpush" -> Prev.dropped = RbPush(rb, Prev.v).dropped /\ Prev.len = RbLen(RbPush(rb, Prev.v).q)
      [] Prev.op = "qpop" -> Prev.ok = RbPop(rb).ok /\ Prev.v = RbPop(rb).entry /\ Prev.len = RbLen(RbPop(rb).q)
      [] Prev.op = "add" -> Proj(Prev.inv) = InvOf(CodeOrder(slots, hs, Prev.ev[1], TRUE), Prev.ev)
      [] Prev.op = "tick" ->
           fifo # <<>> => Proj(Prev.inv) = InvOf(CodeOrder(slots, hs, Head(fifo)[1], FALSE), Head(fifo)) \o CodeReAdds(slots, hs, waiting[Head(fifo)[1]])
      [] OTHER -> TRUE
PropertyOK == [][PropertyStep]_vars
ConformsToModel == [][ConformStep]_vars
=============================================================================
