----------------------------- MODULE Trace_C15 -----------------------------
(* Replay of add / mark-proposed / get sequences on the real CommandCache, and of concurrent  *)
(* producer/consumer runs (race detector on).                                                  *)
(*  {"op":"new","bs":n} {"op":"add","c":[cl,seq]} {"op":"mark","batch":[[cl,seq],..]}         *)
(*  {"op":"get","returned":b,"batch":[..]}   (a Get that does not return is cancelled)         *)
(*  {"op":"conc","bs":n,"k":producers,"m":per producer,"batches":[[..],..],"hang":b}           *)
EXTENDS CmdCache, Json, TLC
Trace == ndJsonDeserialize("trace.ndjson")
VARIABLES l, bs, pending, marks, cache, ready
vars == <<l, bs, pending, marks, cache, ready>>
NoMarks == [c \in 1..4 |-> 0]
Init == l = 0 /\ bs = 1 /\ pending = <<>> /\ marks = NoMarks /\ cache = <<>> /\ ready = 0
Line == Trace[l + 1]
Without(seq, batch) == SelectSeq(seq, LAMBDA c : c \notin ToSet(batch))
Step ==
    /\ l < Len(Trace)
    /\ l' = l + 1
    /\ CASE Line.op = "new" -> bs' = Line.bs /\ pending' = <<>> /\ marks' = NoMarks /\ cache' = <<>> /\ ready' = 0
         [] Line.op = "add" -> /\ pending' = AddCache(pending, marks, Line.c) /\ cache' = AddCache(cache, marks, Line.c)
                               /\ ready' = (IF ~IsDup(marks, Line.c) /\ Len(cache') >= bs THEN 1 ELSE ready)
                               /\ UNCHANGED <<bs, marks>>
         [] Line.op = "mark" -> marks' = MarkAll(marks, Line.batch) /\ UNCHANGED <<bs, pending, cache, ready>>
         [] Line.op = "get" ->
              \* ideal: the returned commands leave the pending sequence
              /\ pending' = Without(pending, Line.batch)
              \* as coded: needs the token; a woken Get consumes it; extraction drops the examined prefix
              /\ IF ready = 0 THEN UNCHANGED <<cache, ready>>
                 ELSE IF Len(cache) < bs THEN cache' = cache /\ ready' = 0
                 ELSE LET r == Extract(cache, marks, bs)
                      IN cache' = r.cache /\ ready' = (IF r.ok /\ Len(r.cache) >= bs THEN 1 ELSE 0)
              /\ UNCHANGED <<bs, marks>>
         [] Line.op = "cget" ->     \* a Get whose context is cancelled already: it may still hand out a batch (then it is a Get), or give up
              IF ~Line.returned THEN UNCHANGED <<bs, pending, marks, cache, ready>>       \* giving up changes nothing: the wake-up stays
              ELSE /\ pending' = Without(pending, Line.batch)
                   /\ IF ready = 0 THEN UNCHANGED <<cache, ready>>
                      ELSE IF Len(cache) < bs THEN cache' = cache /\ ready' = 0
                      ELSE LET r == Extract(cache, marks, bs)
                           IN cache' = r.cache /\ ready' = (IF r.ok /\ Len(r.cache) >= bs THEN 1 ELSE 0)
                   /\ UNCHANGED <<bs, marks>>
         [] OTHER -> UNCHANGED <<bs, pending, marks, cache, ready>>
Spec == Init /\ [][Step]_vars

Flat(b) == FlattenSeq(b)
ConcOK(r) ==
    LET all == Flat(r.batches) IN
    /\ ~r.hang                                                         \* every request returned: no lost wake-up, no lost command
    /\ \A i \in 1..Len(r.batches) : Len(r.batches[i]) = r.bs           \* full batches
    /\ \A i, j \in 1..Len(all) : all[i] = all[j] => i = j              \* at most once
    /\ Len(all) = r.k * r.m                                            \* all accepted commands handed out (k*m is a multiple of bs)
    /\ \A i, j \in 1..Len(all) : (i < j /\ all[i][1] = all[j][1]) => all[i][2] < all[j][2] \/ r.consumers > 1   \* arrival order per producer
    /\ \A i \in 1..Len(r.batches) : \A a, b \in 1..Len(r.batches[i]) :
          (a < b /\ r.batches[i][a][1] = r.batches[i][b][1]) => r.batches[i][a][2] < r.batches[i][b][2]
PropertyStep ==
    (l < Len(Trace)) =>
    CASE Line.op = "get" ->
           /\ Line.returned <=> IdealCanReturn(pending, marks, bs)     \* returns as soon as enough fresh commands are present, else blocks
           /\ Line.returned => Line.batch = IdealBatch(pending, marks, bs)   \* full, oldest fresh, arrival order, none stale
      [] Line.op = "cget" -> Line.returned => (IdealCanReturn(pending, marks, bs) /\ Line.batch = IdealBatch(pending, marks, bs))
      [] Line.op = "conc" -> ConcOK(Line)
      [] OTHER -> TRUE
ConformStep ==
    (l < Len(Trace)) =>
    CASE Line.op = "get" ->
           LET r == Extract(cache, marks, bs)
           IN /\ Line.returned <=> (ready = 1 /\ Len(cache) >= bs /\ r.ok)
              /\ Line.returned => Line.batch = r.batch
      [] Line.op = "cget" ->
           LET r == Extract(cache, marks, bs)
           IN Line.returned => (ready = 1 /\ Len(cache) >= bs /\ r.ok /\ Line.batch = r.batch)
      [] OTHER -> TRUE
PropertyOK == [][PropertyStep]_vars
ConformsToModel == [][ConformStep]_vars
=============================================================================
