CONSTANTS Procs = {1, 2, 3}  Keys = {"good1", "good2", "bad1", "bad2"}  Valid = {"good1", "good2"}  Capacity = 1  Design = "check-insert"
SPECIFICATION Spec
INVARIANTS Transparent OnlyValid Bounded
