----------------------------- MODULE QuorumApa -----------------------------
(* Symbolic check with Apalache: the quorum property for every n >= 1 (length 0). *)
EXTENDS Integers
VARIABLE
    \* @type: Int;
    n

F(m) == (m - 1) \div 3
Q(m) == (m + F(m) + 1 + 1) \div 2
BadQ(m) == (m + F(m) + 1) \div 2

Init == n \in Int /\ n >= 1
Next == UNCHANGED n

OK(m, f, q) == /\ f >= 0 /\ 3 * f < m /\ 3 * (f + 1) >= m
               /\ 2 * q - m >= f + 1
               /\ q <= m - f
               /\ ~(2 * (q - 1) - m >= f + 1)
Inv == OK(n, F(n), Q(n))
BadInv == OK(n, F(n), BadQ(n))
=============================================================================
