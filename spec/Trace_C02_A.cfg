SPECIFICATION Spec
INVARIANT PropertyOK
