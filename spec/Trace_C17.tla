----------------------------- MODULE Trace_C17 -----------------------------
(* Line check: one line per (n, branch factor, position assignment) with the relations     *)
(* reported by a real tree.Tree built for every replica.                                   *)
EXTENDS KauriTree, Json, TLC
Trace == ndJsonDeserialize("trace.ndjson")
VARIABLE l
Init == l = 0
Next == l < Len(Trace) /\ l' = l + 1
Spec == Init /\ [][Next]_l
Cur == Trace[l]
PropertyOK == l > 0 => OneTree(Cur.views)
ConformsToModel == l > 0 =>
    /\ Cur.views = ImplViews(Cur.pos, Cur.bf)
    /\ Cur.treeHeight = ImplTreeHeight(Len(Cur.pos), Cur.bf)
=============================================================================
