CONSTANTS N = 4  Silent = {4}  MaxView = 4  Ruleset = "simplehotstuff"  MaxTimeouts = 1  Dup = FALSE  LeaderMod = 3
SPECIFICATION Spec
INVARIANT Agreement
INVARIANT ChainShape
INVARIANT VoteOnce
INVARIANT TimerLive
PROPERTY Monotone
