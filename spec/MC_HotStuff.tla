---------------------------- MODULE MC_HotStuff ----------------------------
(* The replica model of module HotStuff (the one real traces are validated against) composed with an          *)
(* asynchronous, lossy, duplicating network and view timers, explored exhaustively by TLC for small bounds.     *)
(* Crash faults: the replicas in Silent never act.  Invariants: committed sequences of any two replicas are     *)
(* prefix-related and hash-linked (C01), a replica signs at most one vote per view and never in a view it timed   *)
(* out in (C03), views / high QC / committed view never decrease (C07).                                          *)
EXTENDS Integers, Sequences, FiniteSets, SequencesExt, TLC
CONSTANTS N, Silent, MaxView, Ruleset, MaxTimeouts, Dup, LeaderMod
H == INSTANCE HotStuff
Nodes == 1..N
Live == Nodes \ Silent
F == (N - 1) \div 3
Q == (N + F + 2) \div 2
Leaders == [v \in 1..(MaxView + 2) |-> ((v - 1) % LeaderMod) + 1]          \* rotation among the first LeaderMod replicas

\* ---- the universe of blocks an honest leader can create: one per (view, certified block) ------------------
\* ids: 0 = genesis; the block of view v extending block p gets the next free id in the order (v, p)
RECURSIVE Universe(_, _)
Universe(v, r) ==
    IF v > MaxView THEN r
    ELSE LET ps == {p \in DOMAIN r : r[p].view < v}
             base == Cardinality(DOMAIN r)
             idx == [p \in ps |-> Cardinality({p2 \in ps : p2 < p})]
             add == [i \in base..(base + Cardinality(ps) - 1) |->
                        LET p == CHOOSE p \in ps : idx[p] = i - base IN
                        [view |-> v, parent |-> p, qc |-> p, qcv |-> r[p].view, by |-> Leaders[v]]]
         IN Universe(v + 1, [i \in DOMAIN r \cup DOMAIN add |-> IF i \in DOMAIN r THEN r[i] ELSE add[i]])
Reg == Universe(1, (0 :> [view |-> 0, parent |-> -1, qc |-> -1, qcv |-> 0, by |-> 0]))
NewB == [i \in 1..(Cardinality(DOMAIN Reg) - 1) |-> [id |-> i, view |-> Reg[i].view, parent |-> Reg[i].parent, qc |-> Reg[i].qc, by |-> Reg[i].by]]

VARIABLES rep, net, clog, votes, tviews, tcount
vars == <<rep, net, clog, votes, tviews, tcount>>
Env(i) == [n |-> N, q |-> Q, leaders |-> Leaders, rs |-> Ruleset, agg |-> FALSE, reg |-> Reg,
           avail |-> UNION {rep[j].store : j \in Live \ {i}}, newb |-> NewB, starved |-> {}]
\* what a replica sent, as network messages
Msgs(i, out) ==
    UNION {LET m == out[k] IN
           CASE m.type = "propose" -> {[to |-> j, ev |-> [type |-> "propose", block |-> m.block, from |-> i, agg |-> [v |-> -1, qcs |-> {}]]] : j \in Live \ {i}}
             [] m.type = "vote" -> IF m.to \in Live THEN {[to |-> m.to, ev |-> [type |-> "vote", block |-> m.block, from |-> i, deferred |-> FALSE]]} ELSE {}
             [] m.type = "timeout" -> {[to |-> j, ev |-> [type |-> "timeout", from |-> i, view |-> m.view, si |-> m.si]] : j \in Live \ {i}}
             [] m.type = "newview" -> IF m.to \in Live THEN {[to |-> m.to, ev |-> [type |-> "newview", from |-> i, si |-> m.si]]} ELSE {}
           : k \in 1..Len(out)}
VotedViews(signed) == {<<Reg[signed[k][2]].view, signed[k][2]>> : k \in {j \in 1..Len(signed) : signed[j][1] = "vote"}}
TViews(signed) == {signed[k][2] : k \in {j \in 1..Len(signed) : signed[j][1] = "tview"}}
Apply(i, s2) ==
    /\ rep' = [rep EXCEPT ![i] = s2]
    /\ clog' = [clog EXCEPT ![i] = @ \o s2.commits]
    /\ votes' = [votes EXCEPT ![i] = @ \cup VotedViews(s2.signed)]
    /\ tviews' = [tviews EXCEPT ![i] = @ \cup TViews(s2.signed)]
Started(i) == H!Start(Env(i), H!InitReplica(i))
Init == /\ rep = [i \in Nodes |-> [H!InitReplica(i) EXCEPT !.timer = 1]]      \* (Start armed every replica's view timer for view 1)
        /\ net = {} /\ clog = [i \in Nodes |-> <<>>] /\ votes = [i \in Nodes |-> {}] /\ tviews = [i \in Nodes |-> {}] /\ tcount = 0
\* Synchronizer.Start of every live replica happens first (one step: only the leader of view 1 acts)
Boot == /\ net = {} /\ tcount = 0 /\ (\A j \in Nodes : rep[j].lv = 0 /\ rep[j].view = 1 /\ clog[j] = <<>>)
        /\ \E i \in Live : Leaders[1] = i /\ LET s2 == Started(i) IN Apply(i, s2) /\ net' = Msgs(i, s2.out) /\ s2.out # <<>>
        /\ UNCHANGED tcount
Deliver == \E m \in net :
             LET i == m.to  s2 == H!Input(Env(i), rep[i], m.ev) IN
             /\ Apply(i, s2)
             /\ net' = (IF Dup THEN net ELSE net \ {m}) \cup Msgs(i, s2.out)
             /\ UNCHANGED tcount
Lose == \E m \in net : net' = net \ {m} /\ UNCHANGED <<rep, clog, votes, tviews, tcount>>
Timeout == \E i \in Live :
             /\ tcount < MaxTimeouts /\ rep[i].view <= MaxView
             /\ LET s2 == H!Input(Env(i), rep[i], [type |-> "localtimeout", view |-> rep[i].view]) IN
                Apply(i, s2) /\ net' = net \cup Msgs(i, s2.out)
             /\ tcount' = tcount + 1
Next == Boot \/ Deliver \/ Lose \/ Timeout
Spec == Init /\ [][Next]_vars

\* ---- properties -----------------------------------------------------------------------------------------------
IsPrefixOf(a, b) == Len(a) <= Len(b) /\ SubSeq(b, 1, Len(a)) = a
Agreement == \A i, j \in Live : IsPrefixOf(clog[i], clog[j]) \/ IsPrefixOf(clog[j], clog[i])
ChainShape == \A i \in Live : \A k \in 1..Len(clog[i]) :
                 Reg[clog[i][k]].parent = (IF k = 1 THEN 0 ELSE clog[i][k - 1])
VoteOnce == \A i \in Live : \A a, b \in votes[i] : a[1] = b[1] => a = b
Monotone == [][\A i \in Live : /\ rep'[i].view >= rep[i].view /\ Reg[rep'[i].hqc].view >= Reg[rep[i].hqc].view
                               /\ Reg[rep'[i].committed].view >= Reg[rep[i].committed].view /\ rep'[i].lv >= rep[i].lv
                               /\ rep'[i].htc >= rep[i].htc]_vars
\* every live replica's view timer is armed for the view it is in (otherwise it would never leave that view by itself)
TimerLive == \A i \in Live : rep[i].timer = rep[i].view
\* non-vacuity (must be violated): somebody commits a block
NobodyCommits == \A i \in Live : clog[i] = <<>>
=============================================================================
