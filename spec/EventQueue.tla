----------------------------- MODULE EventQueue -----------------------------
(* The event queue (core/eventloop/queue.go): a ring buffer with head/tail indices that     *)
(* drops the oldest entry when full.  Rb* is the ring buffer as coded; the ideal is a        *)
(* bounded FIFO.  C14 (queue part): push/pop/len agree with the ideal FIFO, and on overflow  *)
(* exactly the oldest entry is dropped and exactly that entry is reported.                  *)
EXTENDS Integers, Sequences

\* ---- ring buffer as coded: entries[0..cap-1] (here 1..cap), head/tail = -1 when empty -----
RbNew(cap) == [entries |-> [i \in 1..cap |-> 0], head |-> -1, tail |-> -1]
RbCap(q) == Len(q.entries)
RbPush(q, e) ==
    LET cap == RbCap(q)
        pos == IF q.tail + 1 = cap THEN 0 ELSE q.tail + 1
        full == pos = q.head
        newHead == IF ~full THEN q.head ELSE IF q.head + 1 = cap THEN 0 ELSE q.head + 1
        dropped == IF full THEN q.entries[q.head + 1] ELSE 0      \* the entry at the OLD head (fix D5)
        head2 == IF newHead = -1 THEN pos ELSE newHead
    IN [q |-> [entries |-> [q.entries EXCEPT ![pos + 1] = e], head |-> head2, tail |-> pos], dropped |-> dropped]
RbPop(q) ==
    IF q.head = -1 THEN [q |-> q, entry |-> 0, ok |-> FALSE]
    ELSE LET e == q.entries[q.head + 1]
             q2 == IF q.head = q.tail THEN [q EXCEPT !.head = -1, !.tail = -1]
                   ELSE [q EXCEPT !.head = IF q.head + 1 = RbCap(q) THEN 0 ELSE q.head + 1]
         IN [q |-> q2, entry |-> e, ok |-> TRUE]
RbLen(q) == IF q.head = -1 THEN 0
            ELSE IF q.head <= q.tail THEN q.tail - q.head + 1
            ELSE RbCap(q) - q.head + q.tail + 1

\* ---- the ideal bounded FIFO -------------------------------------------------------------
FifoPush(s, e, cap) == IF Len(s) = cap THEN [s |-> Tail(s) \o <<e>>, dropped |-> Head(s)]
                       ELSE [s |-> s \o <<e>>, dropped |-> 0]
FifoPop(s) == IF s = <<>> THEN [s |-> s, entry |-> 0, ok |-> FALSE] ELSE [s |-> Tail(s), entry |-> Head(s), ok |-> TRUE]
\* contents of the ring buffer, oldest first
RbContents(q) == [i \in 1..RbLen(q) |-> q.entries[((q.head + i - 1) % RbCap(q)) + 1]]
=============================================================================
