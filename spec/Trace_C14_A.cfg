SPECIFICATION Spec
PROPERTY PropertyOK
