CONSTANTS Procs = {1, 2}  Hashes = {"a", "b"}  Remote = {"a"}  Design = "code"
SPECIFICATION Spec
INVARIANT IndexedOnce
PROPERTY Answers
