------------------------------ MODULE Trace_R ------------------------------
(* Conformance of real replicas to the replica model (Pass B for the protocol traces).                     *)
(* The trace of `hsverif proto` (crash faults only: every certificate in the run is genuine) is replayed     *)
(* through module HotStuff: for every scheduler step the model computes, from ITS OWN state of the          *)
(* stepping replica and the logged input, the complete reaction -- new view, high QC / TC, lock, last voted    *)
(* view, committed block, the votes and timeouts signed, the blocks committed, the view changes signalled     *)
(* and every message sent -- and ConformsToModel requires the log to show exactly that.  Only the outcome of   *)
(* block fetches (which depend on the other replicas) and the ids of freshly proposed blocks are taken from    *)
(* the log.  The model state is never re-synchronised from the log inside a run.                              *)
EXTENDS Integers, Sequences, FiniteSets, SequencesExt, Json, TLC
H == INSTANCE HotStuff
Trace == ndJsonDeserialize("trace.ndjson")
VARIABLES l, cfg, reg, rep, on
vars == <<l, cfg, reg, rep, on>>
Genesis == [view |-> 0, parent |-> -1, qc |-> -1, qcv |-> 0, by |-> 0]
NoCfg == [n |-> 1, q |-> 1, leaders |-> <<1>>, rs |-> "", agg |-> FALSE]
Init == l = 0 /\ cfg = NoCfg /\ reg = (0 :> Genesis) /\ rep = <<>> /\ on = FALSE
Line == Trace[l + 1]
AddBlocks(r, new) == [i \in DOMAIN r \cup {new[j].id : j \in 1..Len(new)} |->
                        IF i \in DOMAIN r THEN r[i]
                        ELSE LET b == new[CHOOSE j \in 1..Len(new) : new[j].id = i]
                             IN [view |-> b.view, parent |-> b.parent, qc |-> b.qc, qcv |-> b.qcv, by |-> b.by]]
QcsOf(pairs) == {pairs[i][2] : i \in 1..Len(pairs)}
Si(x) == [qc |-> x.qc, tc |-> x.tc, agg |-> x.agg, aggqcs |-> QcsOf(x.aggqcs)]
EvOf(ev) ==
    CASE ev.type = "propose" -> [type |-> "propose", block |-> ev.block, from |-> ev.from, agg |-> [v |-> ev.aggv, qcs |-> QcsOf(ev.aggqcs)]]
      [] ev.type = "vote" -> [type |-> "vote", block |-> ev.block, from |-> ev.from, deferred |-> FALSE]
      [] ev.type = "timeout" -> [type |-> "timeout", from |-> ev.from, view |-> ev.view, si |-> Si(ev.si)]
      [] ev.type = "newview" -> [type |-> "newview", from |-> ev.from, si |-> Si(ev.si)]
      [] ev.type = "localtimeout" -> [type |-> "localtimeout", view |-> ev.view]
      [] OTHER -> [type |-> "other"]
Env(r2) == [n |-> cfg.n, q |-> cfg.q, leaders |-> cfg.leaders, rs |-> cfg.rs, agg |-> cfg.agg, reg |-> r2,
            avail |-> {Line.fetch[i][1] : i \in {j \in 1..Len(Line.fetch) : Line.fetch[j][2]}}, newb |-> Line.new,
            starved |-> IF "starved" \in DOMAIN Line THEN {Line.starved[i] : i \in 1..Len(Line.starved)} ELSE {}]
Modelled == cfg.rs \in {"chainedhotstuff", "simplehotstuff"}
Predict(r2) ==
    LET s == rep[Line.node] E == Env(r2) IN
    CASE Line.kind = "start" -> H!Start(E, s)
      [] OTHER -> H!Input(E, s, EvOf(Line.ev))
Step ==
    /\ l < Len(Trace)
    /\ l' = l + 1
    /\ CASE Line.op = "init" ->
              /\ cfg' = [n |-> Line.n, q |-> Line.q, leaders |-> Line.leaders, rs |-> Line.rs, agg |-> Line.agg]
              /\ reg' = (0 :> Genesis)
              /\ rep' = [i \in 1..Line.n |-> H!InitReplica(i)]
              /\ on' = ((Line.byz = <<>> \/ Line.crashOnly) /\ Line.rs \in {"chainedhotstuff", "simplehotstuff", "fasthotstuff"})
         [] Line.op = "byz" -> on' = FALSE /\ reg' = AddBlocks(reg, Line.new) /\ UNCHANGED <<cfg, rep>>
         [] Line.op \in {"relead", "heal"} -> cfg' = [cfg EXCEPT !.leaders = Line.leaders] /\ UNCHANGED <<reg, rep, on>>
         [] Line.op = "step" ->
              LET r2 == AddBlocks(reg, Line.new) IN
              /\ reg' = r2
              /\ rep' = IF on THEN [rep EXCEPT ![Line.node] = Predict(r2)] ELSE rep
              /\ UNCHANGED <<cfg, on>>
         [] OTHER -> UNCHANGED <<cfg, reg, rep, on>>
Spec == Init /\ [][Step]_vars

\* ---- what the log shows, in the model's terms ------------------------------------------------------------
OutKey(m) ==
    CASE m.type = "propose" -> <<"propose", m.to, m.block, IF "aggv" \in DOMAIN m THEN m.aggv ELSE m.agg>>
      [] m.type = "vote" -> <<"vote", m.to, m.block>>
      [] m.type = "timeout" -> <<"timeout", m.to, m.view, m.si.qc, m.si.tc, m.si.agg>>
      [] m.type = "newview" -> <<"newview", m.to, m.si.qc, m.si.tc, m.si.agg>>
      [] OTHER -> <<m.type>>
Keys(seq) == [i \in 1..Len(seq) |-> OutKey(seq[i])]
Pairs(seq) == [i \in 1..Len(seq) |-> <<seq[i][1], seq[i][2]>>]
Shown(s, r) == [view |-> s.view, hqc |-> s.hqc, hqcv |-> r[s.hqc].view, htc |-> s.htc, lv |-> s.lv,
                lock |-> IF cfg.rs = "fasthotstuff" THEN -1 ELSE s.lock, committed |-> s.committed,
                signed |-> Pairs(s.signed), commits |-> s.commits, vcs |-> Pairs(s.vcs), out |-> Keys(s.out), miss |-> s.miss,
                timer |-> s.timer, dlog |-> s.dlog]
Logged == [view |-> Line.post.view, hqc |-> Line.post.hqc, hqcv |-> Line.post.hqcv, htc |-> Line.post.htc, lv |-> Line.post.lv, lock |-> Line.post.lock,
           committed |-> Line.post.committed, signed |-> Pairs(Line.signed), commits |-> Line.commits, vcs |-> Pairs(Line.vcs), out |-> Keys(Line.out), miss |-> FALSE,
           timer |-> Line.post.tv, dlog |-> Line.dlog]
ConformsStep == (l < Len(Trace) /\ Line.op = "step" /\ on /\ Line.panic = "") => Shown(rep'[Line.node], reg') = Logged
ConformsToModel == [][ConformsStep]_vars
\* for diagnosis: the two sides of the first step that differs
Diff == IF l < Len(Trace) /\ Line.op = "step" /\ on THEN <<Shown(Predict(AddBlocks(reg, Line.new)), AddBlocks(reg, Line.new)), Logged>> ELSE <<>>
Alias == [l |-> l, diff |-> Diff]
=============================================================================
