SPECIFICATION Spec
PROPERTY PropertyOK
