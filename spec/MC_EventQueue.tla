---------------------------- MODULE MC_EventQueue ----------------------------
(* All push/pop sequences (values numbered by push order, bounded by MaxPush) on every      *)
(* capacity 1..MaxCap: the ring buffer refines the ideal FIFO step by step.                 *)
EXTENDS EventQueue
CONSTANTS MaxCap, MaxPush
VARIABLES cap, rb, fifo, next, lastR, lastF
vars == <<cap, rb, fifo, next, lastR, lastF>>
Init == /\ cap \in 1..MaxCap /\ rb = RbNew(cap) /\ fifo = <<>> /\ next = 1
        /\ lastR = <<"init", 0, TRUE>> /\ lastF = <<"init", 0, TRUE>>
Push == /\ next <= MaxPush
        /\ LET r == RbPush(rb, next) f == FifoPush(fifo, next, cap)
           IN rb' = r.q /\ fifo' = f.s /\ lastR' = <<"push", r.dropped, TRUE>> /\ lastF' = <<"push", f.dropped, TRUE>>
        /\ next' = next + 1 /\ UNCHANGED cap
Pop == /\ LET r == RbPop(rb) f == FifoPop(fifo)
          IN rb' = r.q /\ fifo' = f.s /\ lastR' = <<"pop", r.entry, r.ok>> /\ lastF' = <<"pop", f.entry, f.ok>>
       /\ UNCHANGED <<cap, next>>
Next == Push \/ Pop
Spec == Init /\ [][Next]_vars
Refines == lastR = lastF /\ RbLen(rb) = Len(fifo) /\ RbContents(rb) = fifo
=============================================================================
