SPECIFICATION Spec
PROPERTY PropertyOK
PROPERTY ConformsToModel
