SPECIFICATION Spec
PROPERTY PropertyOK
