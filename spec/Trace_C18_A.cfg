SPECIFICATION Spec
INVARIANT PropertyOK
