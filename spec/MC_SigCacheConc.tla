--------------------------- MODULE MC_SigCacheConc ---------------------------
(* The verification cache under overlapping requests.  Votes and timeout messages are        *)
(* verified in their own goroutines, so Cache.Verify / BatchVerify run concurrently; each    *)
(* call is two critical sections (cache.go check, then -- after the scheme's own, unlocked   *)
(* verification -- insert).  Sign inserts in one.  Procs callers, Keys abstract cache keys,  *)
(* Valid the keys whose signature really verifies.                                            *)
(*   Design = "check-insert"  the code: a key enters the list only after it verified          *)
(*   Design = "reserve"       negative control: the key is put into the list by the lookup    *)
(*                            and taken out again when verification fails (one lock round     *)
(*                            trip less) -- a second caller in between is told "valid"         *)
EXTENDS SigCache, TLC
CONSTANTS Procs, Keys, Valid, Capacity, Design
VARIABLES entries, pc, req, reply
vars == <<entries, pc, req, reply>>
Drop(es, key) == SelectSeq(es, LAMBDA k : k # key)
Init == entries = <<>> /\ pc = [p \in Procs |-> "idle"] /\ req = [p \in Procs |-> CHOOSE k \in Keys : TRUE] /\ reply = [p \in Procs |-> FALSE]
\* first critical section (cache.check)
Lookup(p, k) ==
    /\ pc[p] = "idle"
    /\ req' = [req EXCEPT ![p] = k]
    /\ IF Hit(entries, k)
       THEN entries' = Touch(entries, k) /\ reply' = [reply EXCEPT ![p] = TRUE] /\ pc' = [pc EXCEPT ![p] = "done"]
       ELSE /\ entries' = IF Design = "reserve" THEN Insert(entries, k, Capacity) ELSE entries
            /\ pc' = [pc EXCEPT ![p] = "verifying"] /\ UNCHANGED reply
\* the scheme's verification (no lock held), then the second critical section (cache.insert)
Finish(p) ==
    /\ pc[p] = "verifying"
    /\ LET ok == req[p] \in Valid IN
       /\ entries' = IF Design = "reserve" THEN (IF ok THEN entries ELSE Drop(entries, req[p]))
                     ELSE (IF ok THEN Insert(entries, req[p], Capacity) ELSE entries)
       /\ reply' = [reply EXCEPT ![p] = ok]
    /\ pc' = [pc EXCEPT ![p] = "done"] /\ UNCHANGED req
Return(p) == pc[p] = "done" /\ pc' = [pc EXCEPT ![p] = "idle"] /\ UNCHANGED <<entries, req, reply>>
\* Sign: one critical section, the key of an own (valid) signature
Sign(p, k) == pc[p] = "idle" /\ k \in Valid /\ entries' = Insert(entries, k, Capacity) /\ UNCHANGED <<pc, req, reply>>
Next == \E p \in Procs : Finish(p) \/ Return(p) \/ \E k \in Keys : Lookup(p, k) \/ Sign(p, k)
Spec == Init /\ [][Next]_vars
\* every answer is the uncached verdict, whatever overlaps
Transparent == \A p \in Procs : pc[p] = "done" => reply[p] = (req[p] \in Valid)
\* the list only ever holds keys that verify ("known valid"), within capacity, without duplicates
OnlyValid == (Design = "check-insert") => \A i \in 1..Len(entries) : entries[i] \in Valid
Bounded == Len(entries) <= Capacity /\ \A i, j \in 1..Len(entries) : entries[i] = entries[j] => i = j
=============================================================================
