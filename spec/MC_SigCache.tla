----------------------------- MODULE MC_SigCache -----------------------------
(* Design-level check of C11: for every reachable cache state and every request from a small *)
(* universe (multi-signatures over 2 members, claimed ids, real signers, two messages), the   *)
(* cached verdict equals the uncached one.  KeyMode = "old" is the negative control: the key  *)
(* without the claimed participants must be refuted.                                          *)
EXTENDS SigCache, Cert, TLC
CONSTANTS N, Capacity, KeyMode
M1 == BlockMsg("B1")
M2 == BlockMsg("B2")
Entry == {<<c, s, m>> : c \in 1..N, s \in 1..N, m \in {M1, M2}}
Sigs == {[t |-> "multi", e |-> e] : e \in UNION {[1..k -> Entry] : k \in 1..2}}
Requests == Sigs \X {M1, M2}
\* the byte identity of a multi-signature is the sequence of its atoms
BytesOf(sig) == [i \in 1..Len(sig.e) |-> <<sig.e[i][2], sig.e[i][3]>>]
ClaimedSeq(sig) == [i \in 1..Len(sig.e) |-> sig.e[i][1]]
KeyOf(sig, msg) == IF KeyMode = "full" THEN <<msg, ClaimedSeq(sig), BytesOf(sig)>> ELSE <<msg, <<>>, BytesOf(sig)>>
VARIABLE entries
Init == entries = <<>>
DoVerify(sig, msg) == entries' = CachedNext(entries, KeyOf(sig, msg), Verify(sig, msg, N), Capacity)
Next == \E r \in Requests : DoVerify(r[1], r[2])
Spec == Init /\ [][Next]_entries
Transparent == \A r \in Requests : CachedVerdict(entries, KeyOf(r[1], r[2]), Verify(r[1], r[2], N)) = Verify(r[1], r[2], N)
=============================================================================
