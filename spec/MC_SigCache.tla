----------------------------- MODULE MC_SigCache -----------------------------
(* Design-level check of C11: for every reachable cache state and every request from a small *)
(* universe (multi-signatures over 2 members, claimed ids, real signers, two messages; single  *)
(* and batch verification), the cached verdict equals the uncached one.                        *)
(* Negative controls (must be refuted):                                                        *)
(*   KeyMode = "old"     the key without the claimed participants (D4)                          *)
(*   KeyMode = "shared"  single and batch verification in one key space (D19): the digest of a  *)
(*                       batch is the hash of a byte string, and that byte string is also a      *)
(*                       possible single message (Pre(b) below)                                  *)
EXTENDS SigCache, Cert, TLC
CONSTANTS N, Capacity, KeyMode
M1 == BlockMsg("B1")
M2 == BlockMsg("B2")
\* batches over the two members; Pre(b) is the single message whose hash is the digest of batch b
Batches == {[i \in 1..N |-> IF i = 1 THEN M1 ELSE M2], [i \in 1..N |-> IF i = 1 THEN M2 ELSE M1]}
Pre(b) == <<"P", 0, 0, b>>
Singles == {M1, M2} \cup {Pre(b) : b \in Batches}
Entry == {<<c, s, m>> : c \in 1..N, s \in 1..N, m \in {M1, M2}}
Sigs == {[t |-> "multi", e |-> e] : e \in UNION {[1..k -> Entry] : k \in 1..2}}
\* the byte identity of a multi-signature is the sequence of its atoms
BytesOf(sig) == [i \in 1..Len(sig.e) |-> <<sig.e[i][2], sig.e[i][3]>>]
ClaimedSeq(sig) == [i \in 1..Len(sig.e) |-> sig.e[i][1]]
\* what is hashed: a batch and its pre-image hash alike
Digest(kind, x) == IF kind = "batch" THEN <<"batch-digest", x>>
                   ELSE IF x[1] = "P" THEN <<"batch-digest", x[4]>> ELSE <<"digest", x>>
KeyOf(kind, sig, x) ==
    CASE KeyMode = "full" -> <<kind, Digest(kind, x), ClaimedSeq(sig), BytesOf(sig)>>          \* the code after D19
      [] KeyMode = "shared" -> <<"any", Digest(kind, x), ClaimedSeq(sig), BytesOf(sig)>>       \* before
      [] OTHER -> <<kind, Digest(kind, x), <<>>, BytesOf(sig)>>                                 \* "old": participants dropped
Uncached(kind, sig, x) == IF kind = "batch" THEN BatchVerify(sig, x, N) ELSE Verify(sig, x, N)
Requests == ({"single"} \X Sigs \X Singles) \cup ({"batch"} \X Sigs \X Batches)
VARIABLE entries
Init == entries = <<>>
Do(r) == entries' = CachedNext(entries, KeyOf(r[1], r[2], r[3]), Uncached(r[1], r[2], r[3]), Capacity)
Next == \E r \in Requests : Do(r)
Spec == Init /\ [][Next]_entries
Transparent == \A r \in Requests : CachedVerdict(entries, KeyOf(r[1], r[2], r[3]), Uncached(r[1], r[2], r[3])) = Uncached(r[1], r[2], r[3])
=============================================================================
