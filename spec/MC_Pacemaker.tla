----------------------------- MODULE MC_Pacemaker -----------------------------
(* All interleavings of timeout messages over several views from Senders (signature good or    *)
(* bad, duplicates) at a replica that stays in view 2: the bag-based collector as coded fires   *)
(* exactly when the property-level count reaches the quorum.  NegInv (cfg _neg): the collector   *)
(* as it was before the fix of D7 (one quorum count over all views) must be refuted.             *)
EXTENDS Pacemaker, TLC
CONSTANTS N, Q, Views
VARIABLES good, bag, oldbag, fired, expected, okAll
vars == <<good, bag, oldbag, fired, expected, okAll>>
Init == good = <<>> /\ bag = <<>> /\ oldbag = <<>> /\ fired = FALSE /\ expected = FALSE /\ okAll = TRUE
CurView == 2
\* the old collector: fires when the whole bag reaches the quorum, then removes the messages of that view
OldFires(b, s, v) == ~BagHas(b, s, v) /\ Len(BagAdd(b, s, v)) >= Q
OldAfter(b, s, v) == LET b1 == BagAdd(b, s, v) b2 == IF OldFires(b, s, v) THEN SelectSeq(b1, LAMBDA x : x[2] # v) ELSE b1
                     IN SelectSeq(b2, LAMBDA x : x[2] >= CurView)
Deliver(s, v, ok) ==
    /\ expected' = Assembles(good, CurView, s, v, ok, Q)
    /\ fired' = (ok /\ BagFires(bag, s, v, Q) /\ v >= CurView)
    /\ okAll' = (okAll /\ (ok /\ OldFires(oldbag, s, v) /\ v >= CurView) = Assembles(good, CurView, s, v, ok, Q))
    /\ good' = IF Assembles(good, CurView, s, v, ok, Q) THEN Put(good, v, {}) ELSE AfterTimeout(good, CurView, s, v, ok)
    /\ bag' = IF ok THEN BagAfter(bag, s, v, Q, CurView) ELSE bag
    /\ oldbag' = IF ok THEN OldAfter(oldbag, s, v) ELSE oldbag
Next == \E s \in 1..N, v \in Views, ok \in BOOLEAN : Deliver(s, v, ok)
Spec == Init /\ [][Next]_vars
\* a timeout certificate for a future view moves the replica (it is then no longer in CurView): the model
\* stops counting there, so restrict to runs in which no future-view quorum has formed
Inv == fired = expected
NegInv == okAll
=============================================================================
