----------------------------- MODULE Trace_C13 -----------------------------
(* State-machine replay of store/get/extends/commit sequences on a real Blockchain (fetch     *)
(* through the real RequestBlockQF with honest and lying replies) and a real Committer.       *)
(*  {"op":"forest","blocks":[[id,view,parent],..],"remote":[ids]}                             *)
(*  {"op":"store","b":id}                                                                     *)
(*  {"op":"get","h":id,"got":id|-1,"hashOK":bool,"keyed":bool}                                *)
(*  {"op":"extends","b":id,"t":id,"res":bool}                                                 *)
(*  {"op":"commit","b":id,"committed":[ids],"aborted":[ids],"err":bool}                       *)
EXTENDS BlockStore, Json, TLC
Trace == ndJsonDeserialize("trace.ndjson")
VARIABLES l, forest, remote, stored, index, pruneH, lastView, reported, done
vars == <<l, forest, remote, stored, index, pruneH, lastView, reported, done>>
Genesis == (0 :> [view |-> 0, parent |-> -1])
Init == l = 0 /\ forest = Genesis /\ remote = {} /\ stored = {0} /\ index = {0} /\ pruneH = 0 /\ lastView = 0 /\ reported = {} /\ done = {}
Line == Trace[l + 1]
MkForest(blocks) == [i \in {0} \cup {blocks[j][1] : j \in 1..Len(blocks)} |->
                        IF i = 0 THEN [view |-> 0, parent |-> -1]
                        ELSE LET j == CHOOSE k \in 1..Len(blocks) : blocks[k][1] = i IN [view |-> blocks[j][2], parent |-> blocks[j][3]]]
Avail == stored \cup remote
\* blocks pulled into the store by a walk from cur down to view <= tview (each Get fetches)
RECURSIVE Fetched(_, _)
Fetched(cur, tview) == IF forest[cur].view <= tview THEN {}
                       ELSE LET p == forest[cur].parent IN IF p = -1 \/ p \notin Avail THEN {} ELSE {p} \cup Fetched(p, tview)
Step ==
    /\ l < Len(Trace)
    /\ l' = l + 1
    /\ CASE Line.op = "forest" -> /\ forest' = MkForest(Line.blocks) /\ remote' = ToSet(Line.remote) /\ stored' = {0} /\ index' = {0}
                                  /\ pruneH' = 0 /\ lastView' = 0 /\ reported' = {} /\ done' = {}
         [] Line.op = "store" -> /\ stored' = stored \cup {Line.b} /\ index' = index \cup {Line.b}
                                 /\ UNCHANGED <<forest, remote, pruneH, lastView, reported, done>>
         [] Line.op = "get" -> /\ stored' = IF Line.h \in Avail THEN stored \cup {Line.h} ELSE stored
                               /\ index' = IF Line.h \in Avail THEN index \cup {Line.h} ELSE index
                               /\ UNCHANGED <<forest, remote, pruneH, lastView, reported, done>>
         [] Line.op = "extends" -> /\ stored' = stored \cup Fetched(Line.b, forest[Line.t].view)
                                   /\ index' = index \cup Fetched(Line.b, forest[Line.t].view)
                                   /\ UNCHANGED <<forest, remote, pruneH, lastView, reported, done>>
         [] Line.op = "commit" ->
              IF Line.err THEN \* nothing is committed; the walk towards the committed block fetched what it could
                               /\ stored' = stored \cup {Line.b} \cup Fetched(Line.b, lastView) /\ index' = index \cup {Line.b} \cup Fetched(Line.b, lastView)
                               /\ lastView' = IF Line.committed = <<>> THEN lastView ELSE forest[Last(Line.committed)].view
                               /\ reported' = reported \cup ToSet(Line.aborted) /\ done' = done \cup ToSet(Line.committed)
                               /\ UNCHANGED <<forest, remote, pruneH>>
              ELSE /\ stored' = stored \cup {Line.b} \cup Fetched(Line.b, lastView)
                   /\ index' = {x \in index \cup {Line.b} \cup Fetched(Line.b, lastView) : forest[x].view > forest[Line.b].view \/ forest[x].view <= pruneH}
                   /\ pruneH' = forest[Line.b].view /\ lastView' = forest[Line.b].view
                   /\ reported' = reported \cup ToSet(Line.aborted) /\ done' = done \cup ToSet(Line.committed)
                   /\ UNCHANGED <<forest, remote>>
         [] OTHER -> UNCHANGED <<forest, remote, stored, index, pruneH, lastView, reported, done>>
Spec == Init /\ [][Step]_vars

PropertyStep ==
    (l < Len(Trace)) =>
    CASE Line.op = "get" -> /\ Line.got \in {-1, Line.h} /\ (Line.got # -1 => Line.hashOK)   \* content-addressed
                            /\ Line.h \in ToSet(Line.have) => Line.got = Line.h                \* a stored block is found
                            /\ Line.keyed                                                      \* every stored block sits under its own hash
      [] Line.op = "extends" ->
           \* judged only when the walk can obtain every block it needs (have = really stored, logged by the driver)
           Walkable(forest, ToSet(Line.have) \cup remote, Line.b, forest[Line.t].view) => (Line.res <=> RefExtends(forest, Line.b, Line.t))
      [] Line.op = "commit" ->
           \* also when the commit fails half way (an ancestor cannot be obtained): whatever is reported as abandoned is reported once
           \* and is never a block that was, is now, or -- being judged at that later line -- will be executed
           /\ ~Line.err => PruneSound(forest, Line.b, Line.aborted, reported)
           /\ ToSet(Line.aborted) \cap reported = {} /\ Cardinality(ToSet(Line.aborted)) = Len(Line.aborted)
           /\ (reported \cup ToSet(Line.aborted)) \cap (done \cup ToSet(Line.committed)) = {}
      [] OTHER -> TRUE
ConformStep ==
    (l < Len(Trace)) =>
    CASE Line.op = "get" -> Line.got = (IF Line.h \in Avail THEN Line.h ELSE -1) /\ ToSet(Line.have) = stored
      [] Line.op = "extends" -> Line.res = CodeExtends(forest, Avail, Line.b, Line.t) /\ ToSet(Line.have) = stored
      [] Line.op = "commit" ->
           ~Line.err => /\ Line.committed = NewlyCommitted(forest, Line.b, lastView)
                        /\ ToSet(Line.aborted) = CodeAborted(forest, index \cup {Line.b} \cup Fetched(Line.b, lastView), pruneH, Line.b)
      [] OTHER -> TRUE
PropertyOK == [][PropertyStep]_vars
ConformsToModel == [][ConformStep]_vars
=============================================================================
