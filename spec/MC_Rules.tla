------------------------------ MODULE MC_Rules ------------------------------
(* Model-level: over every forest of K blocks (views grow along parent links, QC pointer any  *)
(* earlier block or missing) and every presentation order, the rules as coded decide like the  *)
(* published rules.  NegInv (cfg MC_Rules_neg) uses SimpleHotStuff's commit rule as it was     *)
(* before the fix of D15 and must be refuted.                                                  *)
EXTENDS Rules, TLC
CONSTANTS K, MaxView
Ids == 1..K
Forests == {f \in [Ids -> [view : 1..MaxView, parent : 0..(K - 1), qc : -1..(K - 1), qcv : {0}]] :
               \A i \in Ids : /\ f[i].parent < i /\ f[i].qc < i
                              /\ f[i].view > (IF f[i].parent = 0 THEN 0 ELSE f[f[i].parent].view)}
WithGenesis(f) == [i \in 0..K |-> IF i = 0 THEN [view |-> 0, parent |-> -1, qc |-> -1, qcv |-> 0]
                                  ELSE [f[i] EXCEPT !.qcv = IF f[i].qc = -1 THEN f[i].view - 1 ELSE IF f[i].qc = 0 THEN 0 ELSE f[f[i].qc].view]]
Orders == {o \in [1..K -> Ids] : \A i, j \in 1..K : o[i] = o[j] => i = j}
VARIABLES f, order
Init == f \in Forests /\ order \in Orders
Next == UNCHANGED <<f, order>>
Spec == Init /\ [][Next]_<<f, order>>
NoAgg == [i \in 1..K |-> FALSE]
Same(rs) == Run(rs, WithGenesis(f), order, 1, {0}, 0, NoAgg, TRUE) = Run(rs, WithGenesis(f), order, 1, {0}, 0, NoAgg, FALSE)
Inv == Same("chained") /\ Same("simple") /\ Same("fast")
RECURSIVE OldRun(_, _, _, _, _)
OldRun(g, o, i, have, lock) ==
    IF i > Len(o) THEN <<>>
    ELSE LET h2 == have \cup {o[i]} l2 == RefSimpleLock(g, h2, lock, o[i])
         IN <<OldSimpleCommit(g, h2, o[i])>> \o OldRun(g, o, i + 1, h2, l2)
RECURSIVE RefCommits(_, _, _, _)
RefCommits(g, o, i, have) == IF i > Len(o) THEN <<>> ELSE <<RefSimpleCommit(g, have \cup {o[i]}, o[i])>> \o RefCommits(g, o, i + 1, have \cup {o[i]})
NegInv == OldRun(WithGenesis(f), order, 1, {0}, 0) = RefCommits(WithGenesis(f), order, 1, {0})
=============================================================================
