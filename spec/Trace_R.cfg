SPECIFICATION Spec
PROPERTY ConformsToModel
ALIAS Alias
