------------------------------ MODULE Trace_P ------------------------------
(* Protocol trace (skeleton P): one line per scheduler step of a cluster of REAL replicas     *)
(* (hsverif proto).  The trace specification reconstructs, from the logged observations, the  *)
(* ground truth the properties talk about (who signed what, which blocks exist, what every    *)
(* replica committed / executed) and evaluates the property formulas on every step.            *)
(*   P_C01  committed ledgers never diverge, each is one hash-linked chain                     *)
(*   P_C03  vote discipline                                                                    *)
(*   P_C06  execution order, exactly-once, digests, outcomes                                   *)
(*   P_C07  views / certified state move forward, only on evidence                             *)
(*   P_C05  progress after the heal (bounded liveness as safety)                               *)
EXTENDS Integers, Sequences, FiniteSets, SequencesExt, FiniteSetsExt, Json, TLC
Trace == ndJsonDeserialize("trace.ndjson")

VARIABLES l, cfg, reg, clog, voted, tsigned, votesFor, tsigners, offered, xlog, digests, outcomes, healInfo
vars == <<l, cfg, reg, clog, voted, tsigned, votesFor, tsigners, offered, xlog, digests, outcomes, healInfo>>

Genesis == [view |-> 0, parent |-> -1, qc |-> -1, qcv |-> 0, by |-> 0, cmds |-> <<>>]
NoCfg == [n |-> 1, q |-> 1, byz |-> {}, leaders |-> <<1>>, rs |-> "", chain |-> 3, agg |-> FALSE]
Nodes == 1..cfg.n
Honest == Nodes \ cfg.byz
Init == /\ l = 0 /\ cfg = NoCfg /\ reg = (0 :> Genesis)
        /\ clog = <<>> /\ voted = <<>> /\ tsigned = <<>> /\ votesFor = (0 :> {}) /\ tsigners = <<>>
        /\ offered = <<>> /\ xlog = <<>> /\ digests = <<>> /\ outcomes = <<>> /\ healInfo = [on |-> FALSE]
Line == Trace[l + 1]

\* ---- registry ------------------------------------------------------------------------------------
AddBlocks(r, new) == [i \in DOMAIN r \cup {new[j].id : j \in 1..Len(new)} |->
                        IF i \in DOMAIN r THEN r[i]
                        ELSE LET b == new[CHOOSE j \in 1..Len(new) : new[j].id = i]
                             IN [view |-> b.view, parent |-> b.parent, qc |-> b.qc, qcv |-> b.qcv, by |-> b.by, cmds |-> b.cmds]]
Ext(f, keys, default) == [k \in DOMAIN f \cup keys |-> IF k \in DOMAIN f THEN f[k] ELSE default]
LeaderOf(v) == IF v >= 1 /\ v <= Len(cfg.leaders) THEN cfg.leaders[v] ELSE 0

\* ---- folding the signing log of a step ---------------------------------------------------------
RECURSIVE FoldVotes(_, _, _), FoldTimeouts(_, _, _)
FoldVotes(vf, node, signed) ==
    IF signed = <<>> THEN vf
    ELSE LET s == Head(signed)
         IN FoldVotes(IF s[1] = "vote" THEN [Ext(vf, {s[2]}, {}) EXCEPT ![s[2]] = @ \cup {node}] ELSE vf, node, Tail(signed))
FoldTimeouts(ts, node, signed) ==
    IF signed = <<>> THEN ts
    ELSE LET s == Head(signed)
         IN FoldTimeouts(IF s[1] = "tview" THEN [Ext(ts, {s[2]}, {}) EXCEPT ![s[2]] = @ \cup {node}] ELSE ts, node, Tail(signed))
SignedVoteViews(r, signed) == {r[signed[i][2]].view : i \in {j \in 1..Len(signed) : signed[j][1] = "vote"}}
SignedTViews(signed) == {signed[i][2] : i \in {j \in 1..Len(signed) : signed[j][1] = "tview"}}

\* ---- execution model (ClientIO): a command runs unless its client already ran an equal or higher number --
RECURSIVE DedupAppend(_, _)
DedupAppend(x, cmds) ==
    IF cmds = <<>> THEN x
    ELSE LET c == Head(cmds)
             dup == \E i \in 1..Len(x) : x[i][1] = c[1] /\ x[i][2] >= c[2]
         IN DedupAppend(IF dup THEN x ELSE Append(x, c), Tail(cmds))
RECURSIVE CmdsOf(_, _)
CmdsOf(r, blocks) == IF blocks = <<>> THEN <<>> ELSE r[Head(blocks)].cmds \o CmdsOf(r, Tail(blocks))

Step ==
    /\ l < Len(Trace)
    /\ l' = l + 1
    /\ CASE Line.op = "init" ->
              /\ cfg' = [n |-> Line.n, q |-> Line.q, byz |-> ToSet(Line.byz), leaders |-> Line.leaders, rs |-> Line.rs, chain |-> Line.chain, agg |-> Line.agg]
              /\ reg' = (0 :> Genesis)
              /\ clog' = [r \in 1..Line.n |-> <<>>] /\ voted' = [r \in 1..Line.n |-> {}] /\ tsigned' = [r \in 1..Line.n |-> {}]
              /\ votesFor' = (0 :> {}) /\ tsigners' = <<>> /\ offered' = [r \in 1..Line.n |-> {}]
              /\ xlog' = [r \in 1..Line.n |-> <<>>] /\ digests' = <<>> /\ outcomes' = [r \in 1..Line.n |-> {}]
              /\ healInfo' = [on |-> FALSE]
         [] Line.op = "byz" -> reg' = AddBlocks(reg, Line.new)
                               /\ UNCHANGED <<cfg, clog, voted, tsigned, votesFor, tsigners, offered, xlog, digests, outcomes, healInfo>>
         [] Line.op = "relead" -> /\ cfg' = [cfg EXCEPT !.leaders = Line.leaders]
                                  /\ UNCHANGED <<reg, clog, voted, tsigned, votesFor, tsigners, offered, xlog, digests, outcomes, healInfo>>
         [] Line.op = "pause" ->          \* the clients stop sending: the premise "commands are available" is off until the next heal line
              /\ healInfo' = [on |-> FALSE]
              /\ UNCHANGED <<cfg, reg, clog, voted, tsigned, votesFor, tsigners, offered, xlog, digests, outcomes>>
         [] Line.op = "heal" ->
              /\ healInfo' = [on |-> TRUE, members |-> ToSet(Line.members), view |-> Line.view, ff |-> Line.faultfree,
                               last |-> [r \in Nodes |-> Line.view],      \* the view in which r committed last (the heal view to begin with)
                               fired |-> [r \in Nodes |-> 0]]             \* expiries of r's view timer since then
              /\ cfg' = [cfg EXCEPT !.leaders = Line.leaders]
              /\ UNCHANGED <<reg, clog, voted, tsigned, votesFor, tsigners, offered, xlog, digests, outcomes>>
         [] Line.op = "step" ->
              LET n == Line.node
                  reg2 == AddBlocks(reg, Line.new)
              IN /\ reg' = reg2
                 /\ clog' = [clog EXCEPT ![n] = @ \o Line.commits]
                 /\ voted' = [voted EXCEPT ![n] = @ \cup SignedVoteViews(reg2, Line.signed)]
                 /\ tsigned' = [tsigned EXCEPT ![n] = @ \cup SignedTViews(Line.signed)]
                 /\ votesFor' = FoldVotes(votesFor, n, Line.signed)
                 /\ tsigners' = FoldTimeouts(tsigners, n, Line.signed)
                 /\ offered' = IF Line.ev.type = "propose" THEN [offered EXCEPT ![n] = @ \cup {<<Line.ev.block, Line.ev.from>>}] ELSE offered
                 /\ xlog' = [xlog EXCEPT ![n] = DedupAppend(@, Line.exec)]
                 /\ digests' = Ext(digests, {Line.count}, Line.digest)
                 /\ outcomes' = [outcomes EXCEPT ![n] = @ \cup {<<Line.outcomes[i][1], Line.outcomes[i][2]>> : i \in 1..Len(Line.outcomes)}]
                 /\ healInfo' = IF ~healInfo.on THEN healInfo
                                ELSE IF Line.commits # <<>> THEN [healInfo EXCEPT !.last[n] = IF Line.post.view > healInfo.view THEN Line.post.view ELSE healInfo.view,
                                                                                    !.fired[n] = 0]      \* (a member that is still catching up to the heal view is measured from the heal view)
                                ELSE IF Line.kind = "timeout" THEN [healInfo EXCEPT !.fired[n] = @ + 1] ELSE healInfo
                 /\ UNCHANGED cfg
         [] OTHER -> UNCHANGED <<cfg, reg, clog, voted, tsigned, votesFor, tsigners, offered, xlog, digests, outcomes, healInfo>>
Spec == Init /\ [][Step]_vars
IsStep == l < Len(Trace) /\ Line.op = "step"
IsPrefixOf(a, b) == Len(a) <= Len(b) /\ SubSeq(b, 1, Len(a)) = a
PrefixRelated(a, b) == IsPrefixOf(a, b) \/ IsPrefixOf(b, a)

\* ================= C01 ============================================================================
\* (evaluated on the post-state of every step: primed variables)
ChainShape(r, seq) ==
    \A i \in 1..Len(seq) :
        /\ seq[i] \in DOMAIN r
        /\ r[seq[i]].parent = (IF i = 1 THEN 0 ELSE seq[i - 1])       \* hash-linked to the block committed before
        /\ (i > 1 => r[seq[i]].view > r[seq[i - 1]].view)               \* views strictly increase
        /\ \A j \in 1..(i - 1) : seq[j] # seq[i]                        \* no block twice
C01Step == IsStep =>
    /\ ChainShape(reg', clog'[Line.node])
    /\ \A a, b \in Honest : PrefixRelated(clog'[a], clog'[b])
P_C01 == [][C01Step]_vars

\* ================= C03 ============================================================================
Backers(vf, b) == (IF b \in DOMAIN vf THEN vf[b] ELSE {}) \cup cfg.byz   \* Byzantine keys may have signed anything
SoundQCOf(r, vf, b) ==
    \/ r[b].qc = 0 /\ r[b].qcv = 0
    \/ /\ r[b].qc \in DOMAIN r /\ r[b].qc # 0
       /\ r[b].qcv = r[r[b].qc].view
       /\ Cardinality(Backers(vf, r[b].qc)) >= cfg.q
RECURSIVE VotesOK(_, _, _, _, _, _)
\* the votes signed in this step, in order: each must be for a well-formed leader proposal of a fresh view
VotesOK(r, vf, n, signed, vset, tset) ==
    IF signed = <<>> THEN TRUE
    ELSE LET s == Head(signed) IN
         IF s[1] = "tview" THEN VotesOK(r, vf, n, Tail(signed), vset, tset \cup {s[2]})
         ELSE IF s[1] # "vote" THEN VotesOK(r, vf, n, Tail(signed), vset, tset)
         ELSE LET b == s[2] IN
              /\ b \in DOMAIN r
              /\ \/ <<b, LeaderOf(r[b].view)>> \in offered'[n]                 \* proposed to it by the leader of the block's view
                 \/ (LeaderOf(r[b].view) = n /\ r[b].by = n)                    \* or its own proposal as that leader
              /\ SoundQCOf(r, vf, b)                                           \* carries a valid quorum certificate
              /\ r[b].parent = r[b].qc /\ r[b].view > r[r[b].qc].view            \* directly extends the certified block
              /\ \A v \in vset : r[b].view > v                                  \* one block per view, increasing views
              /\ \A v \in tset : r[b].view > v                                  \* not in or before a view it signed a timeout for
              /\ VotesOK(r, vf, n, Tail(signed), vset \cup {r[b].view}, tset)
C03Step == IsStep => VotesOK(reg', votesFor', Line.node, Line.signed, voted[Line.node], tsigned[Line.node])
P_C03 == [][C03Step]_vars

\* ================= C07 ============================================================================
ViewOfBlock(r, b) == IF b \in DOMAIN r THEN r[b].view ELSE -1
Evidence(r, vf, ts, w) ==
    \/ \E b \in DOMAIN r : r[b].view >= w /\ b # 0 /\ Cardinality(Backers(vf, b)) >= cfg.q
    \/ \E v \in DOMAIN ts : v >= w /\ Cardinality(ts[v] \cup cfg.byz) >= cfg.q
    \/ \E v \in w..(w + 40) : v \notin DOMAIN ts /\ Cardinality(cfg.byz) >= cfg.q     \* (never: |byz| < q)
C07Step == IsStep =>
    LET pre == Line.pre post == Line.post IN
    /\ post.view >= pre.view /\ post.htc >= pre.htc /\ post.cview >= pre.cview              \* never decrease
    /\ ViewOfBlock(reg', post.hqc) >= ViewOfBlock(reg', pre.hqc) /\ post.hqcv >= pre.hqcv
    /\ post.hqcv = ViewOfBlock(reg', post.hqc)                                               \* the label is the certified block's view
    \* the certified state moves only on evidence too: a higher "highest QC" names a block a quorum really voted for,
    \* a higher "highest TC" a view a quorum really signed timeouts for
    /\ (post.hqc # pre.hqc) => (post.hqc \in DOMAIN reg' /\ Cardinality(Backers(votesFor', post.hqc)) >= cfg.q)
    /\ (post.htc > pre.htc) => (post.htc \in DOMAIN tsigners' /\ Cardinality(tsigners'[post.htc] \cup cfg.byz) >= cfg.q)
    /\ Len(Line.vcs) = post.view - pre.view                                                  \* every increment is signalled ...
    /\ \A i \in 1..Len(Line.vcs) : Line.vcs[i][1] = pre.view + i                              \* ... one view at a time
    /\ \A w \in pre.view..(post.view - 1) : Evidence(reg', votesFor', tsigners', w)            \* only on evidence
P_C07 == [][C07Step]_vars

\* ================= C06 ============================================================================
C06Step == IsStep =>
    LET n == Line.node IN
    /\ Line.exec = CmdsOf(reg', Line.commits)                               \* handed to the application in chain order
    /\ Line.count = Len(xlog'[n])                                            \* nothing executed twice, nothing skipped
    /\ \A a, b \in Honest : PrefixRelated(xlog'[a], xlog'[b])
    /\ (Line.count \in DOMAIN digests => digests[Line.count] = Line.digest)    \* equal counts, equal digests
    /\ \A i \in 1..Len(Line.outcomes) :
          /\ <<Line.outcomes[i][1], Line.outcomes[i][2]>> \notin outcomes[n]    \* at most one outcome per waiting client
          /\ \A j \in 1..(i - 1) : <<Line.outcomes[j][1], Line.outcomes[j][2]>> # <<Line.outcomes[i][1], Line.outcomes[i][2]>>
          /\ Line.outcomes[i][3] = 0 => \E k \in 1..Len(xlog'[n]) : xlog'[n][k] = <<Line.outcomes[i][1], Line.outcomes[i][2]>>
P_C06 == [][C06Step]_vars

\* ================= C05 ============================================================================
\* once the live quorum has run B views beyond the heal, every member has committed something new
Bound == 3 * (cfg.chain + 1)
\* "commits new blocks again within a bounded number of views": from the heal on a member never goes Bound views without
\* committing a block.  A view lasts at most one timer period, so it is equally overdue when its view timer has expired
\* 2 * Bound times since its last commit (it may be stuck in one view: that is a stall, not an excuse).
C05Step == (IsStep /\ healInfo.on) =>
    (Line.node \in healInfo.members =>
        /\ Line.post.view < healInfo'.last[Line.node] + Bound
        /\ healInfo'.fired[Line.node] < 2 * Bound)
\* fault-free synchronous run: every view adds a certified block on top of the previous view's block, nobody times
\* out, and when a replica handles the proposal of view v its committed block is the one of view v - ChainLength
FaultFreeStep == (IsStep /\ healInfo.on /\ healInfo.ff) =>
    /\ \A i \in 1..Len(Line.vcs) : ~Line.vcs[i][2]
    /\ Line.kind # "timeout"
    /\ (Line.ev.type = "propose" /\ Line.ev.block \in DOMAIN reg') =>
          LET b == reg'[Line.ev.block] IN
          /\ b.parent \in DOMAIN reg' /\ reg'[b.parent].view = b.view - 1 /\ b.qc = b.parent
          /\ Line.post.cview = (IF b.view > cfg.chain THEN b.view - cfg.chain ELSE 0)
\* the mechanism every bound above rests on ("a view lasts at most one timer period"): whatever a replica has just handled, its
\* view timer is armed for the view it is in now (startTimeoutTimer was called in or after the last view change).  A replica whose
\* timer is not armed for its view never leaves that view by itself.
TimerStep == IsStep => Line.post.tv = Line.post.view
P_C05 == [][C05Step /\ FaultFreeStep /\ TimerStep]_vars
\* a panic inside a replica is never acceptable (reported under C10 when the harness targets it; here it
\* discredits the run)
NoPanic == [][IsStep => Line.panic = ""]_vars
=============================================================================
