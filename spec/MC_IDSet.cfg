CONSTANT Ids = {1, 7, 8, 9, 16, 17, 24, 25}
SPECIFICATION Spec
INVARIANT Inv
