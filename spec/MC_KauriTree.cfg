CONSTANTS MaxN = 24  PermN = 5  MaxBF = 6
SPECIFICATION Spec
INVARIANT Inv
