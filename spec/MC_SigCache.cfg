CONSTANTS N = 2  Capacity = 2  KeyMode = "full"
SPECIFICATION Spec
INVARIANT Transparent
