SPECIFICATION Spec
PROPERTY P_C06
