SPECIFICATION Spec
INVARIANT PropertyOK
INVARIANT UncachedIsModel
INVARIANT ConformsToModel
