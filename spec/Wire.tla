-------------------------------- MODULE Wire --------------------------------
(* The wire grammar of the replica-to-replica interfaces (internal/proto/hotstuffpb,          *)
(* kauripb): which fields a message has, which of them may be absent, and the value classes    *)
(* that matter to the receiving code.  TLC enumerates the grammar (MC_Wire writes the cases as   *)
(* NDJSON); the Go harness instantiates every case as a real protobuf message with real keys.    *)
(*                                                                                              *)
(* Signature variants (oneof in QuorumSignature):                                               *)
(*   absent      field not set                 empty       oneof not set                        *)
(*   none0       scheme list with 0 entries    good1       one valid signature by the sender    *)
(*   goodq       valid signatures by a quorum  bad1        one entry with garbage bytes         *)
(*   unknown1    valid bytes, unknown signer   nilelem     list holding a nil element           *)
(*   wrongmsg    valid signature over other content                                              *)
(*   blsbad      BLS: bytes that are no curve point      blsnobits  BLS: valid point, empty bit-field *)
(*   blsbig      BLS: valid point, oversized bit-field                                           *)
EXTENDS Integers, Sequences, FiniteSets

SigVariants == {"absent", "empty", "none0", "good1", "goodq", "bad1", "unknown1", "nilelem", "wrongmsg", "blsbad", "blsnobits", "blsbig"}
\* variants that carry at least one signature that verifies for the content it is attached to
SigVerifies(s) == s \in {"good1", "goodq"}
\* "fetchable": a block the receiver does not have but can obtain from its peers (votes for it wait for a proposal, then fetch)
HashClasses == {"empty", "short", "zero", "genesis", "known", "fetchable", "unknown"}
ViewClasses == {"zero", "below", "cur", "next", "far", "max"}     \* relative to the receiver's view

\* ---- certificates -------------------------------------------------------------------------------
QCs == {[present |-> FALSE]} \cup
       {[present |-> TRUE, sig |-> s, hash |-> h, view |-> v] : s \in SigVariants, h \in {"zero", "genesis", "known", "unknown"}, v \in {"zero", "match", "next"}}
\* a QC passes verification: genesis certificate, or quorum of valid signatures for a known block with the block's view
QCVerifies(q) == q.present /\ ((q.hash = "genesis" /\ q.view = "zero") \/ (q.sig = "goodq" /\ q.hash = "known" /\ q.view = "match"))
TCs == {[present |-> FALSE]} \cup {[present |-> TRUE, sig |-> s, view |-> v] : s \in SigVariants, v \in {"zero", "cur", "far"}}
TCVerifies(t) == t.present /\ (t.view = "zero" \/ t.sig = "goodq")
AggShapes == {"absent", "emptymap", "nosig", "good", "badsig", "mixed"}
AggVerifies(a) == a = "good"

\* ---- messages -----------------------------------------------------------------------------------
Votes == {[rpc |-> "vote", sig |-> s, hash |-> h] : s \in SigVariants, h \in HashClasses}
SmallQCs == {q \in QCs : ~q.present \/ (q.sig \in {"absent", "goodq", "bad1", "blsbad"} /\ q.view # "next")}
SmallTCs == {t \in TCs : ~t.present \/ t.sig \in {"absent", "goodq", "bad1", "nilelem"}}
NoQC == [present |-> FALSE]
NoTC == [present |-> FALSE]
\* every QC variant alone, every TC variant alone, every aggregate shape alone, and the cross product of the small sets
SyncInfos == {[qc |-> q, tc |-> NoTC, agg |-> "absent"] : q \in QCs}
             \cup {[qc |-> NoQC, tc |-> t, agg |-> "absent"] : t \in TCs}
             \cup {[qc |-> q, tc |-> t, agg |-> a] : q \in SmallQCs, t \in SmallTCs, a \in {"absent", "nosig", "good", "badsig"}}
             \cup {[qc |-> NoQC, tc |-> NoTC, agg |-> a] : a \in AggShapes}
TinySyncInfos == {[qc |-> q, tc |-> t, agg |-> a] :
                     q \in {NoQC, [present |-> TRUE, sig |-> "absent", hash |-> "genesis", view |-> "zero"],
                                   [present |-> TRUE, sig |-> "goodq", hash |-> "known", view |-> "match"],
                                   [present |-> TRUE, sig |-> "bad1", hash |-> "known", view |-> "match"]},
                     t \in {NoTC, [present |-> TRUE, sig |-> "goodq", view |-> "cur"], [present |-> TRUE, sig |-> "absent", view |-> "cur"]},
                     a \in {"absent", "badsig"}}
NewViews == {[rpc |-> "newview", si |-> si] : si \in SyncInfos}
Timeouts == {[rpc |-> "timeout", view |-> v, viewsig |-> vs, msgsig |-> ms, si |-> si] :
                v \in ViewClasses, vs \in SigVariants, ms \in {"absent", "good1", "bad1", "nilelem"}, si \in TinySyncInfos}
Blocks == {[present |-> FALSE]}
          \cup {[present |-> TRUE, parent |-> p, qc |-> q, cmds |-> "some", view |-> v, ts |-> "set"] :
                   p \in {"empty", "genesis", "known", "unknown"}, q \in SmallQCs, v \in ViewClasses}
          \cup {[present |-> TRUE, parent |-> "genesis", qc |-> [present |-> TRUE, sig |-> "absent", hash |-> "genesis", view |-> "zero"], cmds |-> c, view |-> "cur", ts |-> t] :
                   c \in {"nil", "empty", "some"}, t \in {"nil", "set"}}
Proposals == {[rpc |-> "propose", block |-> b, agg |-> a, leader |-> ld] : b \in Blocks, a \in {"absent", "nosig", "good", "badsig"}, ld \in BOOLEAN}
Fetches == {[rpc |-> "fetch", hash |-> h] : h \in HashClasses}
Contributions == {[rpc |-> "contribution", view |-> v, sig |-> s] : v \in {"zero", "cur", "max"}, s \in SigVariants}
Messages == Votes \cup NewViews \cup Timeouts \cup Proposals \cup Fetches \cup Contributions

\* something in the message passes verification (the receiver may then legitimately act on it)
SIVerifies(si) == QCVerifies(si.qc) \/ TCVerifies(si.tc) \/ AggVerifies(si.agg)
Verifies(m) ==
    CASE m.rpc = "vote" -> SigVerifies(m.sig) /\ m.hash \in {"known", "fetchable"}
      [] m.rpc = "newview" -> SIVerifies(m.si)
      [] m.rpc = "timeout" -> SigVerifies(m.viewsig)
      [] m.rpc = "propose" -> m.block.present /\ (QCVerifies(m.block.qc) \/ AggVerifies(m.agg))
      [] m.rpc = "fetch" -> FALSE
      [] m.rpc = "contribution" -> SigVerifies(m.sig)

\* ---- protocol objects for the round trip (C12) -----------------------------------------------------
\* ("rev" / "rot": the same signers, combined in descending / rotated order -- votes arrive in any order)
ObjSigs == {"nil", "one", "quorum", "all", "quorumrev", "allrot"}
Objects ==
    {[kind |-> "qc", sig |-> s, view |-> v, hash |-> h] : s \in ObjSigs, v \in {"zero", "one", "big", "max"}, h \in {"genesis", "known", "zero"}}
    \cup {[kind |-> "tc", sig |-> s, view |-> v] : s \in ObjSigs \ {"nil"}, v \in {"one", "big", "max"}}
    \cup {[kind |-> "vote", sig |-> "one", hash |-> h] : h \in {"known", "zero"}}
    \cup {[kind |-> "agg", entries |-> e, sig |-> s, view |-> v] : e \in {"none", "same", "distinct", "sameblock"}, s \in ObjSigs \ {"nil"}, v \in {"one", "max"}}
    \cup {[kind |-> "block", cmds |-> c, qcsig |-> s, view |-> v, proposer |-> p, ts |-> t] :
             c \in {"empty", "one", "many"}, s \in {"nil", "quorum"}, v \in {"one", "big", "max"}, p \in {"zero", "one", "max"}, t \in {"epoch", "now", "far"}}
    \cup {[kind |-> "proposal", agg |-> a, cmds |-> c] : a \in {"absent", "same", "distinct"}, c \in {"empty", "many"}}
    \cup {[kind |-> "syncinfo", qc |-> q, tc |-> t, agg |-> a] : q \in BOOLEAN, t \in BOOLEAN, a \in BOOLEAN}
    \cup {[kind |-> "timeout", msgsig |-> m, qc |-> q, tc |-> t, view |-> v] : m \in BOOLEAN, q \in BOOLEAN, t \in BOOLEAN, v \in {"one", "max"}}
=============================================================================
