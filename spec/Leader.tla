------------------------------- MODULE Leader -------------------------------
(* Leader rotation (protocol/leaderrotation).  Stateless schemes are operators; the         *)
(* carousel's activity condition and candidate set are operators over an abstract of the   *)
(* committed chain; the reputation scheme is specified only as "a function of its inputs". *)
EXTENDS Integers, Sequences, FiniteSets, SequencesExt

\* ---- implementation-shaped -----------------------------------------------------------
RR(v, n) == (v % n) + 1                       \* ChooseRoundRobin
\* a uint64 view given as four 16-bit limbs, most significant first (TLC integers are 32 bit)
RECURSIVE ModLimbs(_, _, _, _)
ModLimbs(limbs, i, acc, n) == IF i > Len(limbs) THEN acc ELSE ModLimbs(limbs, i + 1, (acc * 65536 + limbs[i]) % n, n)
RRBig(limbs, off, n) == ((ModLimbs(limbs, 1, 0, n) + off) % n) + 1

\* carousel: head = [view, signed, signers, authors]; authors = proposers of the last f committed
\* blocks (newest first, genesis excluded)
CarouselActive(head, round, chainLength) == head.signed /\ head.view = round - chainLength
CarouselCandidates(head) == ToSet(head.signers) \ ToSet(head.authors)

\* ---- property C16 ---------------------------------------------------------------------
Valid(leader, n) == leader \in 1..n
\* every replica exactly one turn in any n consecutive views
OneTurnEach(leaders, n) ==
    \A i \in 1..(Len(leaders) - n + 1) : {leaders[j] : j \in i..(i + n - 1)} = 1..n
=============================================================================
