CONSTANTS N = 4  Byz = {4}  MaxView = 5  MaxBlocksPerView = 2  Ruleset = "nolock"  LockRule = TRUE
SPECIFICATION Spec
INVARIANT Agreement
INVARIANT OneVotePerView
