CONSTANTS N = 4  Byz = {4}  MaxView = 6  MaxBlocksPerView = 2  Ruleset = "nolock"  LockRule = TRUE  EquivViews = {4}
SPECIFICATION SpecOrdered
INVARIANT Agreement
INVARIANT OneVotePerView
