SPECIFICATION Spec
INVARIANT PropertyOK
