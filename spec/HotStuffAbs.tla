---------------------------- MODULE HotStuffAbs ----------------------------
(* The HotStuff-family protocol without message passing: a global block tree, the votes every   *)
(* honest replica has cast, per-replica lock / last-voted view.  A block exists once a leader      *)
(* proposed it on top of a certified block, a block is certified when a quorum (Byzantine replicas *)
(* included, they sign everything) voted for it, and a block is committed when the commit rule     *)
(* holds on the certified part of the tree.                                                       *)
(*                                                                                                *)
(* Rules are the code's (protocol/rules/*.go, protocol/consensus/voter.go) after the fixes:        *)
(* Voter.Verify (view above the last voted view, parent = certified block, view higher),           *)
(* VoteRule / lock update / CommitRule as in module Rules.                                         *)
(*                                                                                                *)
(* Three uses:                                                                                     *)
(*   1. TLC checks Agreement and OneVotePerView exhaustively for small bounds (C01, C03).          *)
(*   2. Weak # "none" switches one rule to a deliberately weakened form.  TLC must refute          *)
(*      Agreement (negative control), and every violating behaviour it finds is written out as an  *)
(*      attack script that the Go driver (hsverif attack) plays against real replicas with a       *)
(*      Byzantine leader: on code that enforces the rule the script gets stuck, on code with the   *)
(*      weakness the real ledgers diverge and Trace_P reports it.                                  *)
(*   3. Behaviours of the correct model are sampled and replayed too: the real replicas must       *)
(*      follow every step (spec -> code conformance).                                              *)
EXTENDS Integers, FiniteSets, Sequences, TLC, Json
CONSTANTS N, Byz, MaxView, MaxBlocksPerView, Ruleset,
          Weak,        \* "none" or the name of a weakened rule
          Prefix,      \* number of initial views that ran fault-free (everybody voted for one chain)
          EquivViews,  \* views in which the (Byzantine) leader may propose more than one block
          DumpEvery,   \* 0 = no dump; k > 0: print about one in k of the complete behaviours of the model
          GroupVotes   \* TRUE: a block is voted for by a certifying set of honest replicas at once or not at all (a restriction of
                       \* the search used to reach longer attacks; nothing is claimed to be exhaustive under it)
Replicas == 1..N
Honest == Replicas \ Byz
F == (N - 1) \div 3
Q == (N + F + 2) \div 2

\* blocks are identified by <<view, k>> (k distinguishes equivocating blocks of one view); parent[id] is the id of
\* the certified block it extends (= the block its QC certifies, Voter.Verify enforces it)
VARIABLES blocks,      \* function id -> parent id
          votes,       \* votes[r]: ids the honest replica r voted for
          lock, lastVoted,
          cur,         \* view-ordered exploration: the view whose proposals / votes are being explored
          hist         \* output only: the actions so far
vars == <<blocks, votes, lock, lastVoted, cur, hist>>
view == <<blocks, votes, lock, lastVoted, cur>>
GenesisId == <<0, 0>>
Ids == DOMAIN blocks
ViewOf(id) == id[1]
ParentId(id) == IF id = GenesisId THEN GenesisId ELSE blocks[id]
Voters(id) == {r \in Honest : id \in votes[r]} \cup Byz
Certified(id) == id = GenesisId \/ Cardinality(Voters(id)) >= Q
RECURSIVE Ancestor(_, _)
Ancestor(a, b) == IF ViewOf(b) <= ViewOf(a) THEN a = b ELSE Ancestor(a, ParentId(b))   \* a on b's parent chain (or equal)
Conflict(a, b) == ~Ancestor(a, b) /\ ~Ancestor(b, a)
Direct(child, par) == child # GenesisId /\ ParentId(child) = par /\ ViewOf(child) = ViewOf(par) + 1

\* the block a replica locks on when it processes block id: the parent of the block certified by id's QC
TwoChainHead(id) == ParentId(ParentId(id))
NewLock(r, id) ==
    CASE Weak = "regress" -> TwoChainHead(id)                                            \* lock not monotone
      [] Weak = "nolockupdate" -> lock[r]
      [] OTHER -> IF ViewOf(TwoChainHead(id)) > ViewOf(lock[r]) THEN TwoChainHead(id) ELSE lock[r]
SafeToVote(r, id) ==
    CASE Weak = "nolock" -> TRUE
      [] Ruleset = "chained" -> \/ ViewOf(ParentId(id)) > ViewOf(lock[r])          \* liveness: certified block newer than the lock
                                \/ (Weak # "liveonly" /\ Ancestor(lock[r], id))        \* safety: extends the lock
      [] Ruleset = "simple" -> ViewOf(ParentId(id)) >= ViewOf(lock[r])
FreshView(r, id) == IF Weak = "revote" THEN ViewOf(id) >= lastVoted[r] ELSE ViewOf(id) > lastVoted[r]

\* ---- initial state: Prefix fault-free views ------------------------------------------------------
PrefixId(i) == IF i = 0 THEN GenesisId ELSE <<i, 1>>
InitLock == IF Prefix >= 3 THEN PrefixId(Prefix - 2) ELSE GenesisId
Init == /\ blocks = [id \in {PrefixId(i) : i \in 1..Prefix} |-> PrefixId(id[1] - 1)]
        /\ votes = [r \in Honest |-> {PrefixId(i) : i \in 1..Prefix}]
        /\ lock = [r \in Honest |-> InitLock]
        /\ lastVoted = [r \in Honest |-> Prefix]
        /\ cur = Prefix + 1
        /\ hist = <<>>

Propose(v, p, k) ==
    /\ v \in 1..MaxView /\ k \in 1..MaxBlocksPerView
    /\ p \in Ids \cup {GenesisId} /\ Certified(p) /\ ViewOf(p) < v
    /\ <<v, k>> \notin Ids
    /\ (k > 1 => <<v, k - 1>> \in Ids)
    /\ blocks' = [id \in Ids \cup {<<v, k>>} |-> IF id = <<v, k>> THEN p ELSE blocks[id]]
    /\ hist' = Append(hist, <<"P", v, k, p[1], p[2]>>)
    /\ UNCHANGED <<votes, lock, lastVoted>>

Vote(r, id) ==
    /\ r \in Honest /\ id \in Ids
    /\ FreshView(r, id)
    /\ SafeToVote(r, id)
    /\ votes' = [votes EXCEPT ![r] = @ \cup {id}]
    /\ lastVoted' = [lastVoted EXCEPT ![r] = ViewOf(id)]
    /\ lock' = [lock EXCEPT ![r] = NewLock(r, id)]
    /\ hist' = Append(hist, <<"V", r, id[1], id[2]>>)
    /\ UNCHANGED blocks

\* unordered next-state relation (the protocol)
Next == \/ \E v \in 1..MaxView, k \in 1..MaxBlocksPerView : \E p \in Ids \cup {GenesisId} : Propose(v, p, k) /\ UNCHANGED cur
        \/ \E r \in Honest : \E id \in Ids : Vote(r, id) /\ UNCHANGED cur
Spec == Init /\ [][Next]_vars

\* ---- view-ordered exploration (partial-order reduction) -----------------------------------------
\* Every action about a block of view v depends only on actions about blocks of lower views (the parent exists and
\* is certified by votes for the parent; the replica's own earlier votes are for lower views) and actions of
\* different replicas commute.  Every behaviour of Spec can therefore be reordered so that all proposals and votes
\* of view v precede those of view v+1, reaching the same (blocks, votes, lock, lastVoted).  A timer expiry only
\* disables later votes, so it adds no reachable (blocks, votes).  Agreement and OneVotePerView are monotone
\* (a violation persists), hence checking them on NextOrdered decides them for Spec within the same bounds.
\* Honest leaders propose once per view: equivocation (k > 1) is allowed in EquivViews only.
\* all replicas of S vote for id in one step (in increasing order of their ids)
RECURSIVE VoteAll(_, _, _, _, _, _)
VoteAll(S, id, vs, lk, lv, h) ==
    IF S = {} THEN votes' = vs /\ lock' = lk /\ lastVoted' = lv /\ hist' = h
    ELSE LET r == CHOOSE x \in S : \A y \in S : x <= y IN
         /\ (IF Weak = "revote" THEN ViewOf(id) >= lv[r] ELSE ViewOf(id) > lv[r])
         /\ SafeToVote(r, id)                       \* (locks of different replicas are independent: the unprimed lock is the right one)
         /\ VoteAll(S \ {r}, id, [vs EXCEPT ![r] = @ \cup {id}], [lk EXCEPT ![r] = NewLock(r, id)], [lv EXCEPT ![r] = ViewOf(id)],
                    Append(h, <<"V", r, id[1], id[2]>>))
GroupVote(S, id) == /\ id \in Ids /\ Cardinality(S) + Cardinality(Byz) >= Q
                    /\ VoteAll(S, id, votes, lock, lastVoted, hist) /\ UNCHANGED blocks
NextOrdered ==
    \/ \E k \in 1..MaxBlocksPerView : \E p \in Ids \cup {GenesisId} :
            (k = 1 \/ cur \in EquivViews) /\ Propose(cur, p, k) /\ UNCHANGED cur
    \/ (~GroupVotes /\ \E r \in Honest : \E id \in Ids : ViewOf(id) = cur /\ Vote(r, id) /\ UNCHANGED cur)
    \/ (GroupVotes /\ \E S \in SUBSET Honest : \E id \in Ids : ViewOf(id) = cur /\ GroupVote(S, id) /\ UNCHANGED cur)
    \/ (cur < MaxView /\ cur' = cur + 1 /\ UNCHANGED <<blocks, votes, lock, lastVoted, hist>>)
SpecOrdered == Init /\ [][NextOrdered]_vars

\* ---- commit rule on the certified tree ---------------------------------------------------------
\* id is committed when it is the tail of a chain of three directly linked, consecutively numbered certified blocks
Committed(id) ==
    /\ id # GenesisId /\ Certified(id)
    /\ \E b1, b2 \in Ids :
        CASE Weak = "commit2" -> b2 = b1 /\ Direct(b1, id) /\ Certified(b1)                       \* two-chain commit
          [] Weak = "nodirect" -> ParentId(b1) = id /\ ParentId(b2) = b1 /\ Certified(b1) /\ Certified(b2)
          [] Weak = "gaplow" -> ParentId(b1) = id /\ Direct(b2, b1) /\ Certified(b1) /\ Certified(b2)      \* only the upper link in consecutive views
          [] Weak = "gaphigh" -> Direct(b1, id) /\ ParentId(b2) = b1 /\ Certified(b1) /\ Certified(b2)     \* only the lower link
          [] OTHER -> Direct(b1, id) /\ Direct(b2, b1) /\ Certified(b1) /\ Certified(b2)
Agreement == \A a, b \in Ids : (Committed(a) /\ Committed(b)) => ~Conflict(a, b)
OneVotePerView == \A r \in Honest : \A a, b \in votes[r] : ViewOf(a) = ViewOf(b) => a = b

\* ---- output ----------------------------------------------------------------------------------
\* Attack generation: explore only while Agreement holds, print the history of every violating state
Script(kind) == ToJson([kind |-> kind, weak |-> Weak, rs |-> Ruleset, prefix |-> Prefix, n |-> N, ops |-> hist])
ExploreWhileSafe == Agreement \/ PrintT(<<"SCRIPT", Script("attack")>>)      \* used as an invariant that always holds
SpecAttack == Init /\ [][Agreement /\ NextOrdered]_vars                     \* no steps out of a violating state
\* sampled complete behaviours of the model (used with Weak = "none")
DumpSample == (DumpEvery > 0 /\ cur = MaxView /\ RandomElement(1..DumpEvery) = 1) => PrintT(<<"SCRIPT", Script("follow")>>)
=============================================================================
