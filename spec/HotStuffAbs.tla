---------------------------- MODULE HotStuffAbs ----------------------------
(* The HotStuff-family protocol without message passing: a global block tree, the votes every   *)
(* replica has cast, per-replica lock / last-voted view, timeouts.  It abstracts HotStuff (the    *)
(* replica model) and Trace_P: a block exists once a leader proposed it, a block is certified      *)
(* when a quorum (Byzantine replicas included) voted for it, and a replica "commits" what its      *)
(* commit rule yields on the certified part of the tree.  Small enough to exhaust 6-7 views with    *)
(* an equivocating Byzantine leader; used for C01 (agreement) and C03 (vote discipline) in depth.   *)
(*                                                                                                *)
(* Rules are the code's (protocol/rules/*.go) after the fixes: VoteRule / lock update / CommitRule  *)
(* as in module Rules, proposals accepted only if parent = certified block and view higher (D8).    *)
EXTENDS Integers, FiniteSets, Sequences, TLC
CONSTANTS N, Byz, MaxView, MaxBlocksPerView, Ruleset, LockRule
Replicas == 1..N
Honest == Replicas \ Byz
F == (N - 1) \div 3
Q == (N + F + 2) \div 2

\* a block: [view, parent, k] (k distinguishes equivocating blocks of one view); genesis = [view 0]
Genesis == [view |-> 0, parent |-> 0, k |-> 0]
VARIABLES blocks, votes, lock, lastVoted
vars == <<blocks, votes, lock, lastVoted>>
\* blocks are identified by <<view, k>>; parent is the id of the certified block it extends
Id(b) == <<b.view, b.k>>
GenesisId == <<0, 0>>
BlockOf(id) == IF id = GenesisId THEN Genesis ELSE CHOOSE b \in blocks : Id(b) = id
ParentId(id) == BlockOf(id).parent
ViewOf(id) == id[1]
Voters(id) == {r \in Honest : id \in votes[r]} \cup Byz          \* Byzantine replicas vote for everything
Certified(id) == id = GenesisId \/ Cardinality(Voters(id)) >= Q
RECURSIVE Ancestor(_, _)
Ancestor(a, b) == IF ViewOf(b) <= ViewOf(a) THEN a = b ELSE Ancestor(a, ParentId(b))   \* a on b's parent chain (or equal)
Conflict(a, b) == ~Ancestor(a, b) /\ ~Ancestor(b, a)
Direct(child, par) == ParentId(child) = par /\ ViewOf(child) = ViewOf(par) + 1

Init == blocks = {} /\ votes = [r \in Replicas |-> {}] /\ lock = [r \in Replicas |-> GenesisId] /\ lastVoted = [r \in Replicas |-> 0]

\* a leader (honest or not) proposes a block for view v on top of a certified block; a Byzantine leader may
\* propose several blocks for the same view (equivocation)
Propose(v, p, k) ==
    /\ v \in 1..MaxView /\ k \in 1..MaxBlocksPerView
    /\ (p = GenesisId \/ \E b \in blocks : Id(b) = p) /\ Certified(p) /\ ViewOf(p) < v
    /\ ~\E b \in blocks : Id(b) = <<v, k>>
    /\ (k > 1 => \E b \in blocks : Id(b) = <<v, k - 1>>)
    /\ blocks' = blocks \cup {[view |-> v, parent |-> p, k |-> k]}
    /\ UNCHANGED <<votes, lock, lastVoted>>

\* the two-chain head a replica locks on when it processes block id: b'' = parent, b' = parent of b''
TwoChainHead(id) == IF id = GenesisId \/ ParentId(id) = GenesisId THEN GenesisId ELSE ParentId(ParentId(id))
SafeToVote(r, id) ==
    CASE Ruleset = "chained" -> \/ ViewOf(ParentId(id)) > ViewOf(lock[r])          \* liveness: certified block newer than the lock
                                \/ Ancestor(lock[r], id)                            \* safety: extends the lock
      [] Ruleset = "simple" -> ViewOf(ParentId(id)) >= ViewOf(lock[r])
      [] Ruleset = "nolock" -> TRUE                                                  \* negative control
Vote(r, id) ==
    /\ r \in Honest /\ \E b \in blocks : Id(b) = id
    /\ ViewOf(id) > lastVoted[r]
    /\ SafeToVote(r, id)
    /\ votes' = [votes EXCEPT ![r] = @ \cup {id}]
    /\ lastVoted' = [lastVoted EXCEPT ![r] = ViewOf(id)]
    /\ lock' = [lock EXCEPT ![r] = IF LockRule /\ ViewOf(TwoChainHead(id)) > ViewOf(@) THEN TwoChainHead(id) ELSE @]
    /\ UNCHANGED blocks
\* a replica's timer fires: it stops voting in that view
Timeout(r, v) == /\ r \in Honest /\ v \in 1..MaxView /\ v > lastVoted[r]
                 /\ lastVoted' = [lastVoted EXCEPT ![r] = v] /\ UNCHANGED <<blocks, votes, lock>>
Next == \/ \E v \in 1..MaxView, k \in 1..MaxBlocksPerView : \E p \in {GenesisId} \cup {Id(b) : b \in blocks} : Propose(v, p, k)
        \/ \E r \in Honest : \E b \in blocks : Vote(r, Id(b))
        \/ \E r \in Honest, v \in 1..MaxView : Timeout(r, v)
Spec == Init /\ [][Next]_vars

\* ---- commit rule on the certified tree ---------------------------------------------------------
\* id is committed when it heads a chain of three directly linked, consecutively numbered certified blocks
Committed(id) ==
    \E b1, b2 \in {Id(b) : b \in blocks} :
        /\ Direct(b1, id) /\ Direct(b2, b1)
        /\ Certified(id) /\ Certified(b1) /\ Certified(b2)
Agreement == \A a, b \in {Id(x) : x \in blocks} : (Committed(a) /\ Committed(b)) => ~Conflict(a, b)
\* vote discipline (C03) holds by construction of Vote; checked as an invariant over the state
OneVotePerView == \A r \in Honest : \A a, b \in votes[r] : ViewOf(a) = ViewOf(b) => a = b
=============================================================================
