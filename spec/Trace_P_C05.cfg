SPECIFICATION Spec
PROPERTY P_C05
