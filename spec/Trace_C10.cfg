SPECIFICATION Spec
INVARIANT NoPanic
INVARIANT Undisturbed
INVARIANT FlagIsGrammar
