----------------------------- MODULE Trace_C11 -----------------------------
(* State-machine replay of operation sequences run against two real cert.Authority           *)
(* instances: one with the cache (capacity cap), one without.                                 *)
(*  {"op":"new","cap":c}                                                                      *)
(*  {"op":"verify"|"batch","key":{m,c,b},"vc":bool,"vu":bool,"lru":[keys],"n":n, "sig":..,"msg":..}*)
(*  {"op":"sign","key":{m,c,b},"lru":[keys]}                                                  *)
(*  {"op":"combine","okc":bool,"oku":bool,"same":bool}                                        *)
(*  {"op":"overlap","of":"verify"|"batch","key":..,"vcs":[bool..],"reached":[bool..],"vu":bool,"lru":[keys]}: *)
(*      2-3 calls for one signature, each started while the earlier ones are inside the scheme  *)
EXTENDS SigCache, Cert, Json, TLC
Trace == ndJsonDeserialize("trace.ndjson")
VARIABLES l, entries, cap
vars == <<l, entries, cap>>
Init == l = 0 /\ entries = <<>> /\ cap = 1
Line == Trace[l + 1]
Step ==
    /\ l < Len(Trace)
    /\ l' = l + 1
    /\ CASE Line.op = "new" -> entries' = <<>> /\ cap' = Line.cap
         [] Line.op \in {"verify", "batch", "overlap"} -> entries' = CachedNext(entries, Line.key, Line.vu, cap) /\ cap' = cap
         [] Line.op = "sign" -> entries' = Insert(entries, Line.key, cap) /\ cap' = cap
         [] OTHER -> UNCHANGED <<entries, cap>>
Spec == Init /\ [][Step]_vars
Cur == Trace[l]

\* Pass A: the cache never changes a verdict
PropertyOK == l > 0 =>
    CASE Cur.op \in {"verify", "batch", "xverify"} -> Cur.vc = Cur.vu       \* ("xverify": a raw message, see the driver)
      [] Cur.op = "overlap" -> \A i \in 1..Len(Cur.vcs) : Cur.vcs[i] = Cur.vu       \* overlapping callers (MC_SigCacheConc)
      [] Cur.op = "combine" -> Cur.okc = Cur.oku /\ Cur.same
      [] OTHER -> TRUE
\* the uncached verdict is the one the certificate model computes (ties C11 to Cert)
UncachedIsModel == l > 0 =>
    CASE Cur.op = "verify" -> Cur.vu = Verify(Cur.sig, Cur.msg, Cur.n)
      [] OTHER -> TRUE
\* Pass B: the real LRU list equals the model's after every operation
ConformsToModel == l > 0 =>
    CASE Cur.op \in {"verify", "batch", "sign", "overlap"} -> Cur.lru = entries
      [] OTHER -> TRUE
=============================================================================
