----------------------------- MODULE Trace_C09 -----------------------------
(* Replay of vote traffic fed to one REAL collector R (VotingMachine inside a fully wired      *)
(* replica).  Per round a puppet leader proposes block b; votes and the proposal reach R in a   *)
(* scheduler-chosen order; with asynchronous verification the completion order of the parked    *)
(* verifications is a scheduler decision too.  Lines:                                           *)
(*  new {n,q,async}, round, proposal {qcs,held}, vote {from,signers,valid,block,known,qcs,held}, *)
(*  verified {qcs,held} (one parked verification completed), stalled,                            *)
(*  tcview {qcs,held,view}: R left the view on a timeout certificate (its high QC is unchanged):  *)
(*  the votes collected for the block stay collected                                              *)
EXTENDS VoteCollector, Json, TLC
Trace == ndJsonDeserialize("trace.ndjson")
VARIABLES l, cfg, V, waiting, known, formed, inflight
vars == <<l, cfg, V, waiting, known, formed, inflight>>
Init == l = 0 /\ cfg = [n |-> 1, q |-> 1, async |-> FALSE, self |-> 1] /\ V = {} /\ waiting = {} /\ known = FALSE /\ formed = FALSE /\ inflight = {}
Line == Trace[l + 1]
AsVote(x) == [from |-> x.from, signers |-> x.signers, valid |-> x.valid, block |-> IF x.block = "cur" THEN 1 ELSE 2]
\* the set counted after this line, and whether the certificate is due at this line
NewCount(x) ==
    CASE x.op = "vote" /\ ~cfg.async ->
           IF formed THEN V
           ELSE IF known THEN AfterVote(V, AsVote(x), 1, cfg.n)
           ELSE V                                             \* deferred until the proposal is handled
      [] x.op = "proposal" /\ ~cfg.async -> V \cup waiting \cup (IF x.votedSelf THEN {cfg.self} ELSE {})
      [] OTHER -> V
Step ==
    /\ l < Len(Trace)
    /\ l' = l + 1
    /\ CASE Line.op = "new" -> /\ cfg' = [n |-> Line.n, q |-> Line.q, async |-> Line.async, self |-> Line.self]
                               /\ V' = {} /\ waiting' = {} /\ known' = FALSE /\ formed' = FALSE /\ inflight' = {}
         [] Line.op = "round" -> cfg' = cfg /\ V' = {} /\ waiting' = {} /\ known' = FALSE /\ formed' = FALSE /\ inflight' = {}
         [] Line.op = "vote" ->
              /\ cfg' = cfg /\ known' = known
              /\ inflight' = IF Countable(AsVote(Line), 1, cfg.n) THEN inflight \cup {Line.from} ELSE inflight
              /\ waiting' = IF ~known /\ Countable(AsVote(Line), 1, cfg.n) THEN waiting \cup {Line.from} ELSE waiting
              /\ V' = NewCount(Line)
              /\ formed' = (formed \/ (\E i \in 1..Len(Line.qcs) : Line.qcs[i].cur))
         [] Line.op = "proposal" ->
              /\ cfg' = cfg /\ known' = TRUE /\ waiting' = {}
              /\ inflight' = IF Line.votedSelf THEN inflight \cup {cfg.self} ELSE inflight
              /\ V' = NewCount(Line)
              /\ formed' = (formed \/ (\E i \in 1..Len(Line.qcs) : Line.qcs[i].cur))
         [] Line.op = "verified" -> /\ UNCHANGED <<cfg, V, waiting, known, inflight>>
                                    /\ formed' = (formed \/ (\E i \in 1..Len(Line.qcs) : Line.qcs[i].cur))
         [] OTHER -> UNCHANGED <<cfg, V, waiting, known, formed, inflight>>
Spec == Init /\ [][Step]_vars

QCsOK(x) == \A i \in 1..Len(x.qcs) :
                /\ x.qcs[i].valid                                             \* every emitted certificate verifies everywhere
                /\ Cardinality(ToSet(x.qcs[i].signers)) >= cfg.q /\ Cardinality(ToSet(x.qcs[i].signers)) = Len(x.qcs[i].signers)
                /\ x.qcs[i].cur
\* synchronous verification: the certificate appears exactly at the line at which the counted votes reach the quorum
SyncStep ==
    (l < Len(Trace) /\ Line.op \in {"vote", "proposal", "tcview"} /\ ~cfg.async) =>
    /\ QCsOK(Line)
    /\ (Len(Line.qcs) > 0) <=> (~formed /\ Cardinality(V) < cfg.q /\ Cardinality(NewCount(Line)) >= cfg.q)
    /\ \A i \in 1..Len(Line.qcs) : ToSet(Line.qcs[i].signers) \subseteq NewCount(Line)     \* only counted votes are in it
\* asynchronous verification: every certificate is sound and built from countable votes delivered so far; and when a round's
\* verifications have all completed, a certificate exists iff the countable votes delivered reached the quorum (checked by
\* the driver-independent end-of-round line)
AsyncStep ==
    (l < Len(Trace) /\ Line.op \in {"vote", "proposal", "verified", "tcview"} /\ cfg.async) => QCsOK(Line)
\* end of a round (no verification pending any more): the certificate exists iff the countable votes that arrived for
\* the block (own vote included) reach the quorum -- hostile votes neither count nor prevent it
EndStep ==
    (l < Len(Trace) /\ Line.op = "endround") => (formed <=> Cardinality(inflight) >= cfg.q)
PropertyOK == [][SyncStep /\ AsyncStep /\ EndStep]_vars
\* Pass B: the real list of verified votes held by the collector (synchronous mode)
ConformStep ==
    \* (votes that were queued behind the certificate's own event are still stored for the block: not modelled)
    (l < Len(Trace) /\ Line.op \in {"vote", "proposal", "tcview"} /\ ~cfg.async /\ ~formed /\ Len(Line.qcs) = 0) =>
       ToSet(Line.held) = NewCount(Line)
ConformsToModel == [][ConformStep]_vars
=============================================================================
