SPECIFICATION Spec
INVARIANT PropertyOK
