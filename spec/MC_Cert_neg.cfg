CONSTANTS N = 3  MaxLen = 3
SPECIFICATION Spec
INVARIANT NegInv
