----------------------------- MODULE Trace_C10 -----------------------------
(* Line check: every message of the wire grammar Wire!Messages (enumerated by TLC, MC_Wire)   *)
(* is instantiated as a real protobuf message and handed to the REAL service handlers of a      *)
(* running replica (server.serviceImpl.{Propose,Vote,NewView,Timeout,RequestBlock}; Kauri       *)
(* contributions through the event loop), then the event loop runs to quiescence.               *)
(*  {"id":i,"rpc":..,"scheme":..,"cache":b,"state":"fresh|midrun|timedout","verifies":b,"panic":"", "changed":b} *)
EXTENDS Wire, Json, TLC
Trace == ndJsonDeserialize("trace.ndjson")
VARIABLE l
Init == l = 0
Next == l < Len(Trace) /\ l' = l + 1
Spec == Init /\ [][Next]_l
Cur == Trace[l]
\* decoding, certificate verification and the handlers never panic
NoPanic == l > 0 => Cur.panic = ""
\* input in which nothing verifies leaves view, high QC/TC, lock, committed block and vote history unchanged
Undisturbed == l > 0 => (~Cur.verifies => ~Cur.changed)
\* the ground-truth flag logged by the harness is the one the grammar defines
FlagIsGrammar == l > 0 => Cur.verifies = Verifies(Cur.case)
=============================================================================
