------------------------------- MODULE Quorum -------------------------------
(* Quorum arithmetic of relab/hotstuff (quorum.go, core/replica.go).                       *)
(*   F(n) = hotstuff.NumFaulty(n),  Q(n) = hotstuff.QuorumSize(n)  -- as coded              *)
(*   FaultBound / Intersect / Available / Minimal -- the property (C20), written without    *)
(*   reference to the code's formulas.                                                     *)
EXTENDS Integers

\* ---- implementation-shaped operators -------------------------------------------------
F(n) == (n - 1) \div 3
\* int(math.Ceil(float64(n+f+1) / 2.0))
Q(n) == (n + F(n) + 1 + 1) \div 2

\* ---- the property ------------------------------------------------------------------
\* f is the largest integer with 3f < n
FaultBound(n, f) == f >= 0 /\ 3 * f < n /\ 3 * (f + 1) >= n
\* any two quorums of size q out of n share at least f+1 replicas, i.e. one honest one
Intersect(n, f, q) == 2 * q - n >= f + 1
\* the honest replicas alone can form a quorum
Available(n, f, q) == q <= n - f
\* q is the smallest number with the intersection property
Minimal(n, f, q) == ~Intersect(n, f, q - 1)

QuorumOK(n, f, q) == FaultBound(n, f) /\ Intersect(n, f, q) /\ Available(n, f, q) /\ Minimal(n, f, q)

ModelOK(n) == QuorumOK(n, F(n), Q(n))
=============================================================================
