------------------------------ MODULE HotStuff ------------------------------
(* The replica as the code runs it: what one replica does with one input (a message from the network or    *)
(* its view timer) until its event queue is empty.  Written per function of the implementation:            *)
(*                                                                                                        *)
(*   AdvanceView      protocol/synchronizer/synchronizer.go  advanceView + timeoutrule_simple.go           *)
(*   OnPropose        the ProposeMsg handler registered in synchronizer.New, consensus.Voter.Verify,        *)
(*                    Voter.OnValidPropose, Committer.TryCommit                                            *)
(*   ProposeNew       consensus.Proposer.CreateProposal (markProposed, ProposeRule) + Proposer.Propose      *)
(*   CollectVote      votingmachine.CollectVote / verifyCert (synchronous verification)                    *)
(*   OnRemoteTimeout  Synchronizer.OnRemoteTimeout + timeoutCollector                                      *)
(*   OnLocalTimeout   Synchronizer.OnLocalTimeout                                                          *)
(*   VoteRule / CommitRule  protocol/rules/chainedhotstuff.go, simplehotstuff.go                            *)
(*   Drain            core/eventloop: FIFO queue, events deferred with DelayUntil are re-added after the      *)
(*                    handlers of the awaited event type ran                                               *)
(*   Aggregate        protocol/comm/clique.go                                                              *)
(*                                                                                                        *)
(* All certificates are genuine in this model (honest senders; crash faults only): a certificate can fail   *)
(* to verify only because its block cannot be obtained.  The simple timeout rule (TC) is modelled; the        *)
(* aggregate rule (Fast-HotStuff) is not.                                                                   *)
(*                                                                                                        *)
(* E (environment of a step): n, q, leaders, rs (ruleset), reg (block registry: id -> view, parent, qc),   *)
(* avail (blocks a fetch returns in this step), newb (blocks that were created in this step).               *)
EXTENDS Integers, Sequences, FiniteSets, TLC

LeaderOf(E, v) == IF v >= 1 /\ v <= Len(E.leaders) THEN E.leaders[v] ELSE 0
V(E, b) == E.reg[b].view
Par(E, b) == E.reg[b].parent
QcOf(E, b) == E.reg[b].qc
Max(a, b) == IF a >= b THEN a ELSE b

\* ---- replica state -----------------------------------------------------------------------------------
InitReplica(id) ==
    [id |-> id, view |-> 1, hqc |-> 0, htc |-> 0, lock |-> 0, lv |-> 0, committed |-> 0,
     store |-> {0},                  \* blockchain.blocks (never shrinks: pruning only drops the height index)
     vbag |-> {},                    \* votingmachine.verifiedVotes as pairs <<block, signer>>
     tbag |-> {},                    \* timeoutCollector.timeouts as pairs <<sender, view>>
     dP |-> <<>>,                    \* proposals deferred until the next ViewChangeEvent
     dV |-> <<>>,                    \* votes deferred until the next ProposeMsg
     lastTO |-> 0, lastTOsi |-> [qc |-> -2, tc |-> -1],
     lastProposed |-> 0, proposed |-> {},
     queue |-> <<>>,
     out |-> <<>>, signed |-> <<>>, commits |-> <<>>, vcs |-> <<>>, miss |-> FALSE]
ClearOutputs(s) == [s EXCEPT !.out = <<>>, !.signed = <<>>, !.commits = <<>>, !.vcs = <<>>, !.miss = FALSE]
Send(s, m) == [s EXCEPT !.out = Append(@, m)]

\* ---- block store ------------------------------------------------------------------------------------------
Get(E, s, b) == b \in DOMAIN E.reg /\ (b \in s.store \/ b \in E.avail)       \* blockchain.Get: local, else fetched
RECURSIVE ExtendsFrom(_, _, _, _)
ExtendsFrom(E, s, cur, target) ==                                              \* blockchain.Extends (the walk fetches)
    IF V(E, cur) > V(E, target)
    THEN Get(E, s, Par(E, cur)) /\ ExtendsFrom(E, s, Par(E, cur), target)
    ELSE cur = target

\* ---- rules --------------------------------------------------------------------------------------------------
VoteRule(E, s, b) ==
    LET qb == QcOf(E, b) IN
    CASE E.rs = "chainedhotstuff" -> \/ (Get(E, s, qb) /\ V(E, qb) > V(E, s.lock))
                                     \/ ExtendsFrom(E, s, b, s.lock)
      [] E.rs = "simplehotstuff" -> Get(E, s, qb) /\ V(E, qb) >= V(E, s.lock)
\* CommitRule: [lock |-> new lock, commit |-> block to commit or -1]
CommitRule(E, s, b) ==
    LET b1 == QcOf(E, b) IN
    IF ~Get(E, s, b1) THEN [lock |-> s.lock, commit |-> -1] ELSE
    LET b2 == QcOf(E, b1) IN
    IF ~Get(E, s, b2) THEN [lock |-> s.lock, commit |-> -1] ELSE
    LET nl == IF V(E, b2) > V(E, s.lock) THEN b2 ELSE s.lock
        b3 == QcOf(E, b2) IN
    IF ~Get(E, s, b3) THEN [lock |-> nl, commit |-> -1] ELSE
    IF E.rs = "chainedhotstuff"
    THEN [lock |-> nl, commit |-> IF /\ Par(E, b1) = b2 /\ V(E, b1) = V(E, b2) + 1
                                     /\ Par(E, b2) = b3 /\ V(E, b2) = V(E, b3) + 1 THEN b3 ELSE -1]
    ELSE [lock |-> nl, commit |-> IF /\ V(E, b3) + 2 = V(E, b1)
                                     /\ Par(E, b1) = b2 /\ V(E, b1) = V(E, b2) + 1
                                     /\ Par(E, b2) = b3 THEN b3 ELSE -1]
\* Committer.commitInner: the uncommitted ancestors, oldest first; <<-1>> marks a missing ancestor (nothing is committed then)
RECURSIVE CommitChain(_, _, _, _)
CommitChain(E, s, b, cview) ==
    IF V(E, b) <= cview THEN <<>>
    ELSE IF ~Get(E, s, Par(E, b)) THEN <<-1>>
    ELSE LET rest == CommitChain(E, s, Par(E, b), cview) IN
         IF rest # <<>> /\ rest[1] = -1 THEN <<-1>> ELSE Append(rest, b)
TryCommit(E, s, b) ==
    LET s1 == [s EXCEPT !.store = @ \cup {b}]
        cr == CommitRule(E, s1, b)
        s2 == [s1 EXCEPT !.lock = cr.lock] IN
    IF cr.commit = -1 THEN s2 ELSE
    LET chain == CommitChain(E, s2, cr.commit, V(E, s2.committed)) IN
    IF chain = <<>> \/ chain[1] = -1 THEN s2
    ELSE [s2 EXCEPT !.commits = @ \o chain, !.committed = chain[Len(chain)]]

\* ---- votes -----------------------------------------------------------------------------------------------------
VbagClean(E, s) == [s EXCEPT !.vbag = {e \in @ : e[1] \in s.store /\ V(E, e[1]) > V(E, s.hqc)}]
CollectVote(E, s, ev) ==
    IF ~ev.deferred /\ ev.block \notin s.store
    THEN [s EXCEPT !.dV = Append(@, [ev EXCEPT !.deferred = TRUE])]
    ELSE IF ev.deferred /\ ~Get(E, s, ev.block) THEN s
    ELSE LET s0 == [s EXCEPT !.store = @ \cup {ev.block}] IN
         IF V(E, ev.block) <= V(E, s0.hqc) THEN s0                         \* "block too old"
         ELSE IF <<ev.block, ev.from>> \in s0.vbag THEN VbagClean(E, s0)   \* duplicate
         ELSE LET s1 == [s0 EXCEPT !.vbag = @ \cup {<<ev.block, ev.from>>}]
                  cnt == Cardinality({e \in s1.vbag : e[1] = ev.block}) IN
              IF cnt < E.q THEN VbagClean(E, s1)
              ELSE VbagClean(E, [s1 EXCEPT !.vbag = {e \in @ : e[1] # ev.block},
                                           !.queue = Append(@, [type |-> "newview", from |-> s.id, si |-> [qc |-> ev.block, tc |-> -1]])])
\* clique.Aggregate: the vote goes to the leader of the next view (collected directly when that is this replica)
Aggregate(E, s, b) ==
    LET nl == LeaderOf(E, V(E, b) + 1) IN
    IF nl = s.id THEN CollectVote(E, s, [type |-> "vote", block |-> b, from |-> s.id, deferred |-> FALSE])
    ELSE Send(s, [type |-> "vote", to |-> nl, block |-> b])
SignVote(s, b, view) == [s EXCEPT !.signed = Append(@, <<"vote", b>>), !.lv = view]

\* Voter.Verify (the certificate is genuine: it verifies iff its block can be obtained; the genesis certificate needs no block)
VerifyProposal(E, s, b, from) ==
    /\ V(E, b) > s.lv
    /\ VoteRule(E, s, b)
    /\ (QcOf(E, b) = 0 \/ Get(E, s, QcOf(E, b)))
    /\ Par(E, b) = QcOf(E, b)
    /\ V(E, b) > V(E, QcOf(E, b))
    /\ from = LeaderOf(E, V(E, b))

\* ---- proposing ---------------------------------------------------------------------------------------------------
RECURSIVE MarkOK(_, _, _)
MarkOK(E, s, b) == Get(E, s, b) /\ (V(E, b) <= s.lastProposed \/ MarkOK(E, s, QcOf(E, b)))      \* Proposer.markProposed
\* Voter.Verify applied to the block the proposer is about to create (view s.view, parent = certified block = qc)
VerifyNew(E, s, qc) ==
    /\ s.view > s.lv
    /\ Get(E, s, qc)
    /\ CASE E.rs = "chainedhotstuff" -> \/ V(E, qc) > V(E, s.lock)
                                        \/ (s.view > V(E, s.lock) /\ ExtendsFrom(E, s, qc, s.lock))
         [] E.rs = "simplehotstuff" -> V(E, qc) >= V(E, s.lock)
    /\ s.view > V(E, qc)
ProposeNew(E, s, si) ==
    IF ~MarkOK(E, s, s.hqc) THEN s ELSE
    LET s1 == [s EXCEPT !.lastProposed = s.view] IN
    IF si.qc = -2 THEN s1 ELSE                                                \* ProposeRule: no QC in the sync info
    IF ~VerifyNew(E, s1, si.qc) THEN s1 ELSE                                  \* Proposer.Propose: the own proposal must pass Voter.Verify
    LET cands == {i \in 1..Len(E.newb) : /\ E.newb[i].by = s.id /\ E.newb[i].view = s.view /\ E.newb[i].qc = si.qc
                                         /\ E.newb[i].parent = si.qc /\ E.newb[i].id \notin s.proposed} IN
    IF cands = {} THEN [s1 EXCEPT !.miss = TRUE] ELSE                        \* the model proposes, the code did not
    LET b == E.newb[CHOOSE i \in cands : \A j \in cands : i <= j].id
        s2 == [s1 EXCEPT !.proposed = @ \cup {b}]
        s3 == TryCommit(E, SignVote(s2, b, V(E, b)), b)
        s4 == Send(s3, [type |-> "propose", to |-> 0, block |-> b]) IN
    Aggregate(E, s4, b)

\* ---- view synchronisation ------------------------------------------------------------------------------------------
\* Simple.VerifySyncInfo
SyncView(E, s, si) ==
    LET hasTC == si.tc >= 0
        hasQC == si.qc # -2
        tcv == IF hasTC THEN si.tc ELSE 0 IN
    IF hasQC /\ ~(si.qc = 0 \/ Get(E, s, si.qc)) THEN [ok |-> FALSE, view |-> 0, timeout |-> FALSE, qc |-> -2]
    ELSE IF hasQC THEN (IF V(E, si.qc) >= tcv THEN [ok |-> TRUE, view |-> V(E, si.qc), timeout |-> FALSE, qc |-> si.qc]
                                               ELSE [ok |-> TRUE, view |-> tcv, timeout |-> hasTC, qc |-> si.qc])
    ELSE [ok |-> TRUE, view |-> tcv, timeout |-> hasTC, qc |-> -2]
AdvanceView(E, s, si) ==
    LET r == SyncView(E, s, si) IN
    IF ~r.ok THEN s ELSE
    LET s1 == IF si.tc > s.htc THEN [s EXCEPT !.htc = si.tc] ELSE s
        s2 == IF r.qc # -2 /\ V(E, r.qc) > V(E, s1.hqc) THEN [s1 EXCEPT !.hqc = r.qc, !.store = @ \cup {r.qc}] ELSE s1
        siOut == [qc |-> IF r.qc # -2 THEN s2.hqc ELSE -2, tc |-> si.tc] IN
    IF r.view < s2.view THEN s2 ELSE
    LET nv == s2.view + 1
        s3 == [s2 EXCEPT !.view = nv, !.lastTO = 0, !.vcs = Append(@, <<nv, r.timeout>>), !.queue = Append(@, [type |-> "viewchange"])] IN
    IF LeaderOf(E, nv) = s.id THEN ProposeNew(E, s3, siOut)
    ELSE Send(s3, [type |-> "newview", to |-> LeaderOf(E, nv), si |-> siOut])

OnPropose(E, s, ev) ==
    LET b == ev.block
        s1 == AdvanceView(E, s, [qc |-> QcOf(E, b), tc |-> -1]) IN
    IF V(E, b) > s1.view + 10 THEN s1
    ELSE IF V(E, b) > s1.view THEN [s1 EXCEPT !.dP = Append(@, ev)]
    ELSE IF ~VerifyProposal(E, s1, b, ev.from) THEN s1
    ELSE LET s2 == TryCommit(E, s1, b) IN Aggregate(E, SignVote(s2, b, V(E, b)), b)

OnRemoteTimeout(E, s, ev) ==
    LET curr == s.view
        s1 == AdvanceView(E, s, ev.si)
        dup == <<ev.from, ev.view>> \in s1.tbag
        bag == s1.tbag \cup {<<ev.from, ev.view>>}
        quorum == ~dup /\ Cardinality({e \in bag : e[2] = ev.view}) >= E.q
        s2 == IF dup THEN s1
              ELSE IF ~quorum THEN [s1 EXCEPT !.tbag = bag]
              ELSE AdvanceView(E, [s1 EXCEPT !.tbag = {e \in bag : e[2] # ev.view}], [qc |-> s1.hqc, tc |-> ev.view]) IN
    [s2 EXCEPT !.tbag = {e \in @ : e[2] >= curr}]
OnLocalTimeout(E, s, ev) ==
    IF s.view # ev.view THEN s
    ELSE IF s.lastTO = s.view THEN Send(s, [type |-> "timeout", to |-> 0, view |-> s.view, si |-> s.lastTOsi])
    ELSE LET si == [qc |-> s.hqc, tc |-> s.htc]
             s1 == [s EXCEPT !.lastTO = s.view, !.lastTOsi = si, !.signed = Append(@, <<"tview", s.view>>), !.lv = Max(@, s.view)]
             s2 == Send(s1, [type |-> "timeout", to |-> 0, view |-> s.view, si |-> si]) IN
         OnRemoteTimeout(E, s2, [type |-> "timeout", from |-> s.id, view |-> s.view, si |-> si])

\* ---- the event loop ---------------------------------------------------------------------------------------------------
Handle(E, s, ev) ==
    CASE ev.type = "propose" -> LET s1 == OnPropose(E, s, ev) IN [s1 EXCEPT !.queue = @ \o s1.dV, !.dV = <<>>]
      [] ev.type = "vote" -> CollectVote(E, s, ev)
      [] ev.type = "newview" -> AdvanceView(E, s, ev.si)
      [] ev.type = "timeout" -> OnRemoteTimeout(E, s, ev)
      [] ev.type = "localtimeout" -> OnLocalTimeout(E, s, ev)
      [] ev.type = "viewchange" -> [s EXCEPT !.queue = @ \o s.dP, !.dP = <<>>]
      [] OTHER -> s
RECURSIVE Drain(_, _)
Drain(E, s) == IF s.queue = <<>> THEN [s EXCEPT !.store = @ \cup (E.avail \cap DOMAIN E.reg)]
               ELSE Drain(E, Handle(E, [s EXCEPT !.queue = Tail(@)], Head(s.queue)))
\* one input
Input(E, s, ev) == Drain(E, [ClearOutputs(s) EXCEPT !.queue = <<ev>>])
\* Synchronizer.Start: the leader of view 1 proposes
Start(E, s) == IF s.view = 1 /\ LeaderOf(E, 1) = s.id THEN Drain(E, ProposeNew(E, ClearOutputs(s), [qc |-> s.hqc, tc |-> s.htc])) ELSE ClearOutputs(s)
=============================================================================
