------------------------------ MODULE HotStuff ------------------------------
(* The replica as the code runs it: what one replica does with one input (a message from the network or    *)
(* its view timer) until its event queue is empty.  Written per function of the implementation:            *)
(*                                                                                                        *)
(*   AdvanceView      protocol/synchronizer/synchronizer.go  advanceView + timeoutrule_simple.go           *)
(*   OnPropose        the ProposeMsg handler registered in synchronizer.New, consensus.Voter.Verify,        *)
(*                    Voter.OnValidPropose, Committer.TryCommit                                            *)
(*   ProposeNew       consensus.Proposer.CreateProposal (markProposed, ProposeRule) + Proposer.Propose      *)
(*   CollectVote      votingmachine.CollectVote / verifyCert (synchronous verification)                    *)
(*   OnRemoteTimeout  Synchronizer.OnRemoteTimeout + timeoutCollector                                      *)
(*   OnLocalTimeout   Synchronizer.OnLocalTimeout                                                          *)
(*   VoteRule / CommitRule  protocol/rules/chainedhotstuff.go, simplehotstuff.go                            *)
(*   Drain            core/eventloop: FIFO queue, events deferred with DelayUntil are re-added after the      *)
(*                    handlers of the awaited event type ran                                               *)
(*   Aggregate        protocol/comm/clique.go                                                              *)
(*                                                                                                        *)
(* All certificates are genuine in this model (honest senders; crash faults only): a certificate can fail   *)
(* to verify only because its block cannot be obtained.  Both timeout rules are modelled: the simple one      *)
(* (TC) and the aggregate one (TC + aggregate QC, Fast-HotStuff; E.agg).  As coded, the aggregate rule         *)
(* ignores a plain QC in sync info (timeoutrule_aggregate.go VerifySyncInfo): proposals and collected votes     *)
(* never advance the view or the high QC -- the model says what the code does (known finding D11).              *)
(*                                                                                                        *)
(* Sync info: [qc, tc, agg, aggqcs] = certified block or -2, TC view or -1, aggregate-QC view or -1, the blocks   *)
(* certified by the QCs inside the aggregate QC.                                                            *)
(* E (environment of a step): n, q, leaders, rs (ruleset), agg, reg (block registry: id -> view, parent, qc), *)
(* avail (blocks a fetch returns in this step), newb (blocks that were created in this step), starved (views  *)
(* in which the replica had no commands to propose in this step).                                          *)
EXTENDS Integers, Sequences, FiniteSets, TLC

LeaderOf(E, v) == IF v >= 1 /\ v <= Len(E.leaders) THEN E.leaders[v] ELSE 0
V(E, b) == E.reg[b].view
Par(E, b) == E.reg[b].parent
QcOf(E, b) == E.reg[b].qc
Max(a, b) == IF a >= b THEN a ELSE b
SI(qc, tc) == [qc |-> qc, tc |-> tc, agg |-> -1, aggqcs |-> {}]

\* ---- replica state -----------------------------------------------------------------------------------
InitReplica(id) ==
    [id |-> id, view |-> 1, hqc |-> 0, htc |-> 0, lock |-> 0, lv |-> 0, committed |-> 0,
     store |-> {0},                  \* blockchain.blocks (never shrinks: pruning only drops the height index)
     vbag |-> {},                    \* votingmachine.verifiedVotes as pairs <<block, signer>>
     tbag |-> {},                    \* timeoutCollector.timeouts as pairs <<sender, view>>
     dP |-> <<>>,                    \* proposals deferred until the next ViewChangeEvent
     dV |-> <<>>,                    \* votes deferred until the next ProposeMsg
     lastTO |-> 0, lastTOsi |-> [qc |-> -2, tc |-> -1, agg |-> -1, aggqcs |-> {}],
     lastProposed |-> 0, proposed |-> {},
     queue |-> <<>>,
     timer |-> 0,                    \* the view the view timer is armed for (startTimeoutTimer), 0 before Synchronizer.Start
     out |-> <<>>, signed |-> <<>>, commits |-> <<>>, vcs |-> <<>>, miss |-> FALSE,
     dlog |-> <<>>]                  \* calls on the ViewDuration in this step: D = Duration (timer armed), S = ViewStarted, K = ViewSucceeded, T = ViewTimeout
ClearOutputs(s) == [s EXCEPT !.out = <<>>, !.signed = <<>>, !.commits = <<>>, !.vcs = <<>>, !.miss = FALSE, !.dlog = <<>>]
Send(s, m) == [s EXCEPT !.out = Append(@, m)]

\* ---- block store ------------------------------------------------------------------------------------------
Get(E, s, b) == b \in DOMAIN E.reg /\ (b \in s.store \/ b \in E.avail)       \* blockchain.Get: local, else fetched
RECURSIVE ExtendsFrom(_, _, _, _)
ExtendsFrom(E, s, cur, target) ==                                              \* blockchain.Extends (the walk fetches)
    IF V(E, cur) > V(E, target)
    THEN Get(E, s, Par(E, cur)) /\ ExtendsFrom(E, s, Par(E, cur), target)
    ELSE cur = target

\* ---- rules --------------------------------------------------------------------------------------------------
VoteRule(E, s, b) ==
    LET qb == QcOf(E, b) IN
    CASE E.rs = "chainedhotstuff" -> \/ (Get(E, s, qb) /\ V(E, qb) > V(E, s.lock))
                                     \/ ExtendsFrom(E, s, b, s.lock)
      [] E.rs = "simplehotstuff" -> Get(E, s, qb) /\ V(E, qb) >= V(E, s.lock)
\* FastHotStuff.VoteRule: with an aggregate QC the block must extend the block of its QC, otherwise its view is the QC's + 1
FastVoteRule(E, s, b, hasAgg) ==
    IF hasAgg THEN Get(E, s, QcOf(E, b)) /\ ExtendsFrom(E, s, b, QcOf(E, b))
    ELSE V(E, b) = V(E, QcOf(E, b)) + 1
\* CommitRule: [lock |-> new lock, commit |-> block to commit or -1]
CommitRule(E, s, b) ==
    IF E.rs = "fasthotstuff" THEN                                       \* two-chain, no lock
        LET p == QcOf(E, b) IN
        IF ~Get(E, s, p) THEN [lock |-> s.lock, commit |-> -1] ELSE
        LET gp == QcOf(E, p) IN
        IF ~Get(E, s, gp) THEN [lock |-> s.lock, commit |-> -1] ELSE
        [lock |-> s.lock, commit |-> IF /\ Par(E, b) = p /\ V(E, b) = V(E, p) + 1
                                        /\ Par(E, p) = gp /\ V(E, p) = V(E, gp) + 1 THEN gp ELSE -1]
    ELSE
    LET b1 == QcOf(E, b) IN
    IF ~Get(E, s, b1) THEN [lock |-> s.lock, commit |-> -1] ELSE
    LET b2 == QcOf(E, b1) IN
    IF ~Get(E, s, b2) THEN [lock |-> s.lock, commit |-> -1] ELSE
    LET nl == IF V(E, b2) > V(E, s.lock) THEN b2 ELSE s.lock
        b3 == QcOf(E, b2) IN
    IF ~Get(E, s, b3) THEN [lock |-> nl, commit |-> -1] ELSE
    IF E.rs = "chainedhotstuff"
    THEN [lock |-> nl, commit |-> IF /\ Par(E, b1) = b2 /\ V(E, b1) = V(E, b2) + 1
                                     /\ Par(E, b2) = b3 /\ V(E, b2) = V(E, b3) + 1 THEN b3 ELSE -1]
    ELSE [lock |-> nl, commit |-> IF /\ V(E, b3) + 2 = V(E, b1)
                                     /\ Par(E, b1) = b2 /\ V(E, b1) = V(E, b2) + 1
                                     /\ Par(E, b2) = b3 THEN b3 ELSE -1]
\* Committer.commitInner: the uncommitted ancestors, oldest first; <<-1>> marks a missing ancestor (nothing is committed then)
RECURSIVE CommitChain(_, _, _, _)
CommitChain(E, s, b, cview) ==
    IF V(E, b) <= cview THEN <<>>
    ELSE IF ~Get(E, s, Par(E, b)) THEN <<-1>>
    ELSE LET rest == CommitChain(E, s, Par(E, b), cview) IN
         IF rest # <<>> /\ rest[1] = -1 THEN <<-1>> ELSE Append(rest, b)
TryCommit(E, s, b) ==
    LET s1 == [s EXCEPT !.store = @ \cup {b}]
        cr == CommitRule(E, s1, b)
        s2 == [s1 EXCEPT !.lock = cr.lock] IN
    IF cr.commit = -1 THEN s2 ELSE
    LET chain == CommitChain(E, s2, cr.commit, V(E, s2.committed)) IN
    IF chain = <<>> \/ chain[1] = -1 THEN s2
    ELSE [s2 EXCEPT !.commits = @ \o chain, !.committed = chain[Len(chain)]]

\* ---- votes -----------------------------------------------------------------------------------------------------
VbagClean(E, s) == [s EXCEPT !.vbag = {e \in @ : e[1] \in s.store /\ V(E, e[1]) > V(E, s.hqc)}]
CollectVote(E, s, ev) ==
    IF ~ev.deferred /\ ev.block \notin s.store
    THEN [s EXCEPT !.dV = Append(@, [ev EXCEPT !.deferred = TRUE])]
    ELSE IF ev.deferred /\ ~Get(E, s, ev.block) THEN s
    ELSE LET s0 == [s EXCEPT !.store = @ \cup {ev.block}] IN
         IF V(E, ev.block) <= V(E, s0.hqc) THEN s0                         \* "block too old"
         ELSE IF <<ev.block, ev.from>> \in s0.vbag THEN VbagClean(E, s0)   \* duplicate
         ELSE LET s1 == [s0 EXCEPT !.vbag = @ \cup {<<ev.block, ev.from>>}]
                  cnt == Cardinality({e \in s1.vbag : e[1] = ev.block}) IN
              IF cnt < E.q THEN VbagClean(E, s1)
              ELSE VbagClean(E, [s1 EXCEPT !.vbag = {e \in @ : e[1] # ev.block},
                                           !.queue = Append(@, [type |-> "newview", from |-> s.id, si |-> SI(ev.block, -1)])])
\* clique.Aggregate: the vote goes to the leader of the next view (collected directly when that is this replica)
Aggregate(E, s, b) ==
    LET nl == LeaderOf(E, V(E, b) + 1) IN
    IF nl = s.id THEN CollectVote(E, s, [type |-> "vote", block |-> b, from |-> s.id, deferred |-> FALSE])
    ELSE Send(s, [type |-> "vote", to |-> nl, block |-> b])
SignVote(s, b, view) == [s EXCEPT !.signed = Append(@, <<"vote", b>>), !.lv = view]

\* Voter.Verify (the certificate is genuine: it verifies iff its block can be obtained; the genesis certificate needs no block)
\* the highest QC of an aggregate QC whose block can be obtained (Authority.findHighestValidQC), -2 if there is none
AggHigh(E, s, qcs) ==
    LET valid == {c \in qcs : c = 0 \/ Get(E, s, c)} IN
    IF valid = {} THEN -2 ELSE CHOOSE c \in valid : \A d \in valid : V(E, d) <= V(E, c)
VerifyProposal(E, s, b, from, pagg) ==
    /\ V(E, b) > s.lv
    /\ IF E.rs = "fasthotstuff" THEN FastVoteRule(E, s, b, pagg.v >= 0) ELSE VoteRule(E, s, b)
    /\ (E.agg /\ pagg.v >= 0) => AggHigh(E, s, pagg.qcs) = QcOf(E, b)        \* VerifyAnyQC: the block's QC is the aggregate's high QC
    /\ (QcOf(E, b) = 0 \/ Get(E, s, QcOf(E, b)))
    /\ Par(E, b) = QcOf(E, b)
    /\ V(E, b) > V(E, QcOf(E, b))
    /\ from = LeaderOf(E, V(E, b))

\* ---- proposing ---------------------------------------------------------------------------------------------------
RECURSIVE MarkOK(_, _, _)
MarkOK(E, s, b) == Get(E, s, b) /\ (V(E, b) <= s.lastProposed \/ MarkOK(E, s, QcOf(E, b)))      \* Proposer.markProposed
\* Voter.Verify applied to the block the proposer is about to create (view s.view, parent = certified block = qc)
VerifyNew(E, s, qc, si) ==
    /\ s.view > s.lv
    /\ Get(E, s, qc)
    /\ CASE E.rs = "chainedhotstuff" -> \/ V(E, qc) > V(E, s.lock)
                                        \/ (s.view > V(E, s.lock) /\ ExtendsFrom(E, s, qc, s.lock))
         [] E.rs = "simplehotstuff" -> V(E, qc) >= V(E, s.lock)
         [] E.rs = "fasthotstuff" -> IF si.agg >= 0 THEN AggHigh(E, s, si.aggqcs) = qc ELSE s.view = V(E, qc) + 1
    /\ s.view > V(E, qc)
\* E.starved: the views in which this replica, as leader, found no command batch in this step: CommandCache.Get blocks until the
\* replica's view timer fires (the TimeoutEvent cancels the proposer's context when it is added), so nothing is proposed and the
\* timeout event is queued behind what the step has queued so far.
ProposeNew(E, s, si) ==
    IF ~MarkOK(E, s, s.hqc) THEN s ELSE
    LET s1 == [s EXCEPT !.lastProposed = s.view] IN
    IF s.view \in E.starved THEN [s1 EXCEPT !.queue = Append(@, [type |-> "localtimeout", view |-> s.view])] ELSE
    IF si.qc = -2 THEN s1 ELSE                                                \* ProposeRule: no QC in the sync info
    IF ~VerifyNew(E, s1, si.qc, si) THEN s1 ELSE                                  \* Proposer.Propose: the own proposal must pass Voter.Verify
    LET cands == {i \in 1..Len(E.newb) : /\ E.newb[i].by = s.id /\ E.newb[i].view = s.view /\ E.newb[i].qc = si.qc
                                         /\ E.newb[i].parent = si.qc /\ E.newb[i].id \notin s.proposed} IN
    IF cands = {} THEN [s1 EXCEPT !.miss = TRUE] ELSE                        \* the model proposes, the code did not
    LET b == E.newb[CHOOSE i \in cands : \A j \in cands : i <= j].id
        s2 == [s1 EXCEPT !.proposed = @ \cup {b}]
        s3 == TryCommit(E, SignVote(s2, b, V(E, b)), b)
        s4 == Send(s3, [type |-> "propose", to |-> 0, block |-> b, agg |-> IF E.agg THEN si.agg ELSE -1]) IN
    Aggregate(E, s4, b)

\* ---- view synchronisation ------------------------------------------------------------------------------------------
\* Simple.VerifySyncInfo
SyncView(E, s, si) ==
    IF E.agg THEN                                                         \* Aggregate.VerifySyncInfo: a plain QC is not looked at
        LET hasTC == si.tc >= 0
            tcv == IF hasTC THEN si.tc ELSE 0
            hq == AggHigh(E, s, si.aggqcs) IN
        IF si.agg < 0 THEN [ok |-> TRUE, view |-> tcv, timeout |-> hasTC, qc |-> -2]
        ELSE IF hq = -2 THEN [ok |-> FALSE, view |-> 0, timeout |-> FALSE, qc |-> -2]
        ELSE [ok |-> TRUE, view |-> IF si.agg >= tcv THEN si.agg ELSE tcv, timeout |-> TRUE, qc |-> hq]
    ELSE
    LET hasTC == si.tc >= 0
        hasQC == si.qc # -2
        tcv == IF hasTC THEN si.tc ELSE 0 IN
    IF hasQC /\ ~(si.qc = 0 \/ Get(E, s, si.qc)) THEN [ok |-> FALSE, view |-> 0, timeout |-> FALSE, qc |-> -2]
    ELSE IF hasQC THEN (IF V(E, si.qc) >= tcv THEN [ok |-> TRUE, view |-> V(E, si.qc), timeout |-> FALSE, qc |-> si.qc]
                                               ELSE [ok |-> TRUE, view |-> tcv, timeout |-> hasTC, qc |-> si.qc])
    ELSE [ok |-> TRUE, view |-> tcv, timeout |-> hasTC, qc |-> -2]
AdvanceView(E, s, si) ==
    LET r == SyncView(E, s, si) IN
    IF ~r.ok THEN s ELSE
    LET s1 == IF si.tc > s.htc THEN [s EXCEPT !.htc = si.tc] ELSE s
        s2 == IF r.qc # -2 /\ V(E, r.qc) > V(E, s1.hqc) THEN [s1 EXCEPT !.hqc = r.qc, !.store = @ \cup {r.qc}] ELSE s1
        siOut == [si EXCEPT !.qc = IF r.qc # -2 THEN s2.hqc ELSE si.qc] IN     \* syncInfo.SetQC(HighQC) when a QC was found
    IF r.view < s2.view THEN s2 ELSE
    LET nv == s2.view + 1
        \* stopTimeoutTimer; ViewSucceeded unless the view ended on a timeout; NextView; ViewStarted; startTimeoutTimer (for the new view)
        s3 == [s2 EXCEPT !.view = nv, !.lastTO = 0, !.vcs = Append(@, <<nv, r.timeout>>), !.queue = Append(@, [type |-> "viewchange"]),
                         !.timer = nv, !.dlog = @ \o (IF r.timeout THEN <<"S", "D">> ELSE <<"K", "S", "D">>)] IN
    IF LeaderOf(E, nv) = s.id THEN ProposeNew(E, s3, siOut)
    ELSE Send(s3, [type |-> "newview", to |-> LeaderOf(E, nv), si |-> siOut])

OnPropose(E, s, ev) ==
    LET b == ev.block
        s1 == AdvanceView(E, s, SI(QcOf(E, b), -1)) IN
    IF V(E, b) > s1.view + 10 THEN s1
    ELSE IF V(E, b) > s1.view THEN [s1 EXCEPT !.dP = Append(@, ev)]
    ELSE IF ~VerifyProposal(E, s1, b, ev.from, ev.agg) THEN s1
    ELSE LET s2 == TryCommit(E, s1, b) IN Aggregate(E, SignVote(s2, b, V(E, b)), b)

\* (the collector keeps <<sender, view, block of the QC in the sender's sync info>>; the last component goes into the aggregate QC)
OnRemoteTimeout(E, s, ev) ==
    LET curr == s.view
        s1 == AdvanceView(E, s, ev.si)
        dup == \E e \in s1.tbag : e[1] = ev.from /\ e[2] = ev.view
        bag == s1.tbag \cup {<<ev.from, ev.view, ev.si.qc>>}
        mine == {e \in bag : e[2] = ev.view}
        quorum == ~dup /\ Cardinality(mine) >= E.q
        cert == IF E.agg THEN [qc |-> s1.hqc, tc |-> ev.view, agg |-> ev.view, aggqcs |-> {e[3] : e \in mine} \ {-2}]
                ELSE SI(s1.hqc, ev.view)
        s2 == IF dup THEN s1
              ELSE IF ~quorum THEN [s1 EXCEPT !.tbag = bag]
              ELSE AdvanceView(E, [s1 EXCEPT !.tbag = {e \in bag : e[2] # ev.view}], cert) IN
    [s2 EXCEPT !.tbag = {e \in @ : e[2] >= curr}]
OnLocalTimeout(E, s, ev) ==
    IF s.view # ev.view THEN s                                                 \* a stale timer event: ignored, nothing is re-armed
    ELSE IF s.lastTO = s.view                                                  \* startTimeoutTimer comes first on both paths
         THEN Send([s EXCEPT !.timer = s.view, !.dlog = Append(@, "D")], [type |-> "timeout", to |-> 0, view |-> s.view, si |-> s.lastTOsi])
    ELSE LET si == SI(s.hqc, s.htc)
             sg == IF E.agg THEN <<<<"tview", s.view>>, <<"tmsg", s.view>>>> ELSE <<<<"tview", s.view>>>>     \* the aggregate rule signs the message too
             s1 == [s EXCEPT !.lastTO = s.view, !.lastTOsi = si, !.signed = @ \o sg, !.lv = Max(@, s.view),
                             !.timer = s.view, !.dlog = @ \o <<"D", "T">>]                 \* timer re-armed, then ViewTimeout
             s2 == Send(s1, [type |-> "timeout", to |-> 0, view |-> s.view, si |-> si]) IN
         OnRemoteTimeout(E, s2, [type |-> "timeout", from |-> s.id, view |-> s.view, si |-> si])

\* ---- the event loop ---------------------------------------------------------------------------------------------------
Handle(E, s, ev) ==
    CASE ev.type = "propose" -> LET s1 == OnPropose(E, s, ev) IN [s1 EXCEPT !.queue = @ \o s1.dV, !.dV = <<>>]
      [] ev.type = "vote" -> CollectVote(E, s, ev)
      [] ev.type = "newview" -> AdvanceView(E, s, ev.si)
      [] ev.type = "timeout" -> OnRemoteTimeout(E, s, ev)
      [] ev.type = "localtimeout" -> OnLocalTimeout(E, IF s.timer = ev.view THEN [s EXCEPT !.timer = 0] ELSE s, ev)   \* the one-shot timer that fired is spent
      [] ev.type = "viewchange" -> [s EXCEPT !.queue = @ \o s.dP, !.dP = <<>>]
      [] OTHER -> s
RECURSIVE Drain(_, _)
Drain(E, s) == IF s.queue = <<>> THEN [s EXCEPT !.store = @ \cup (E.avail \cap DOMAIN E.reg)]
               ELSE Drain(E, Handle(E, [s EXCEPT !.queue = Tail(@)], Head(s.queue)))
\* one input
Input(E, s, ev) == Drain(E, [ClearOutputs(s) EXCEPT !.queue = <<ev>>])
\* Synchronizer.Start: the leader of view 1 proposes
Start(E, s) == LET s0 == [ClearOutputs(s) EXCEPT !.timer = s.view, !.dlog = <<"D">>] IN      \* startTimeoutTimer first
               IF s.view = 1 /\ LeaderOf(E, 1) = s.id THEN Drain(E, ProposeNew(E, s0, SI(s.hqc, s.htc))) ELSE s0
=============================================================================
