CONSTANT MaxN = 10000
SPECIFICATION Spec
INVARIANT Inv
