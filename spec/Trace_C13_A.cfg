SPECIFICATION Spec
PROPERTY PropertyOK
