------------------------------ MODULE CmdCache ------------------------------
(* The command cache (internal/proto/clientpb/cmdcache.go).  A command is <<client, seq>>.    *)
(* Impl-shaped: cache (FIFO slice), marks (highest proposed sequence number per client), the  *)
(* capacity-1 `ready` channel as a 0/1 token, Get as a process.  Ideal: the sequence of fresh  *)
(* commands.                                                                                   *)
EXTENDS Integers, Sequences, FiniteSets, SequencesExt

IsDup(marks, c) == marks[c[1]] >= c[2]
Fresh(cache, marks) == SelectSeq(cache, LAMBDA c : ~IsDup(marks, c))
\* Add: drop duplicates, append, signal when len(cache) >= batchSize
AddCache(cache, marks, c) == IF IsDup(marks, c) THEN cache ELSE Append(cache, c)
\* Proposed: marks move up only
RECURSIVE MarkAll(_, _)
MarkAll(marks, batch) == IF batch = <<>> THEN marks
                         ELSE LET c == Head(batch) IN MarkAll(IF IsDup(marks, c) THEN marks ELSE [marks EXCEPT ![c[1]] = c[2]], Tail(batch))
\* tryExtractBatch: scan from the front, skip duplicates, stop when the batch is full
RECURSIVE Scan(_, _, _, _, _)
Scan(cache, marks, bs, i, batch) ==
    IF Len(batch) = bs \/ i > Len(cache) THEN [batch |-> batch, examined |-> i - 1]
    ELSE Scan(cache, marks, bs, i + 1, IF IsDup(marks, cache[i]) THEN batch ELSE Append(batch, cache[i]))
Extract(cache, marks, bs) ==
    LET r == Scan(cache, marks, bs, 1, <<>>)
    IN IF Len(r.batch) = bs THEN [ok |-> TRUE, batch |-> r.batch, cache |-> SubSeq(cache, r.examined + 1, Len(cache))]
       ELSE [ok |-> FALSE, batch |-> <<>>, cache |-> cache]

\* ---- property-level (ideal) -----------------------------------------------------------------
\* a request can return iff bs fresh commands are present; it returns the oldest bs of them
IdealCanReturn(cache, marks, bs) == Len(Fresh(cache, marks)) >= bs
IdealBatch(cache, marks, bs) == SubSeq(Fresh(cache, marks), 1, bs)
=============================================================================
