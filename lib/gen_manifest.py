#!/usr/bin/env python3
"""Regenerates /verif/MANIFEST.json from the table below (kept next to the checks so that the
manifest is always valid and in step with what is built)."""
import json
import os

HERE = os.path.dirname(os.path.dirname(os.path.abspath(__file__)))
BASELINE_OFF = ("cd /repo && GOFLAGS=-mod=mod GOPROXY=off go build ./... && "
                "GOFLAGS=-mod=mod GOPROXY=off go test -vet=off -count=1 -timeout 25m ./...")

# id -> (category, technique, text, note, design_ref)
CHECKS = {
    "C20": ("model_checking",
            "TLA+ Quorum module: TLC over n<=10^4 + Apalache symbolic for all n; TLC line-check of the real functions' table",
            "The quorum property is proven on the model for every n (Apalache, symbolic) and re-checked by TLC; the real "
            "NumFaulty/QuorumSize/RuntimeConfig.QuorumSize are dumped for every n in range and every number is judged by TLC "
            "against the property (Pass A) and the model (Pass B). Exhaustive over the stated range.",
            "TLC/Apalache/Z3 soundness; use of the threshold by certificate code is checked under C02/C08/C09.",
            "DESIGN.md section 6, C20"),
    "C01": ("model_checking",
            "TLC evaluates the property formulas of spec/Trace_P.tla on every step of recorded executions of real replicas under an adversarial scheduler (trace validation, Pass A)",
            "Agreement and chain shape are evaluated by TLC at every step of recorded executions of clusters of real replicas (n=4,7; three rulesets; Byzantine replicas scripted by an adversary that equivocates, forks, forges and replays); TLC also exhausts, within small bounds, the abstract protocol model HotStuffAbs (negative control: without the lock Agreement is refuted) and MC_HotStuff, the implementation-shaped replica model composed with a lossy network and view timers."
            " TLC-generated scripts (spec/generated/scripts.ndjson: behaviours of HotStuffAbs that violate Agreement when one rule is weakened, and behaviours of the correct model) are played against real replicas by a Byzantine leader (hsverif attack) and judged the same way. Pass B: every step of the runs without Byzantine action is also replayed through the deterministic replica model spec/HotStuff.tla (Trace_R.tla) -- post-state, signatures, commits, view changes and every message sent must be exactly what the model computes (drift is reported as a warning)."
            " Hand-written adversary scripts for Fast-HotStuff (spec/handwritten/fhs_scripts.ndjson: proposals carrying a genuine aggregate QC assembled from the honest replicas' own timeout messages, or an unsigned one) are played by the same player; one of them reproduces the known finding D24 (DESIGN 7)."
            ,
            "Byzantine keys count as having signed everything; one scheduler step = one delivery run to quiescence.", "DESIGN.md section 6, C01"),
    "C03": ("model_checking",
            "TLC evaluates the property formulas of spec/Trace_P.tla on every step of recorded executions of real replicas under an adversarial scheduler (trace validation, Pass A)",
            "Every call of a replica's signing primitive is recorded (ground truth); TLC checks at each vote that the block was proposed to the voter by the leader of its view, carries a QC backed by a quorum of real votes, directly extends the certified block, and that views voted/timed-out are strictly exceeded. OneVotePerView / VoteOnce are model-checked on HotStuffAbs and MC_HotStuff."
            " TLC-generated scripts (spec/generated/scripts.ndjson: behaviours of HotStuffAbs that violate Agreement when one rule is weakened, and behaviours of the correct model) are played against real replicas by a Byzantine leader (hsverif attack) and judged the same way. Pass B: every step of the runs without Byzantine action is also replayed through the deterministic replica model spec/HotStuff.tla (Trace_R.tla) -- post-state, signatures, commits, view changes and every message sent must be exactly what the model computes (drift is reported as a warning).",
            "Byzantine keys count as having signed everything; one scheduler step = one delivery run to quiescence.", "DESIGN.md section 6, C03"),
    "C05": ("model_checking",
            "TLC evaluates bounded progress (liveness as safety) and the fault-free shape on every step of recorded executions of real replicas: chaos prefix, then a synchronous suffix of a live quorum (spec/Trace_P.tla, P_C05)",
            "Real replicas run a chaos prefix (loss, duplication, reordering, timer firings, up to f crashed replicas), then a live quorum of honest replicas is scheduled "
            "synchronously (all messages among it before any of its timers, later views led by its members; round-robin, fixed and scripted leaders; n in {4,7}); TLC checks "
            "that every member has committed a new block once it is 3*(ChainLength+1) views beyond the heal, and in fault-free synchronous runs that nobody times out, every "
            "view adds a block on the previous view's block and commits trail the proposal by exactly ChainLength. Fast-HotStuff fails (known finding, see DESIGN 7/D11). Scenario batches: a leader cut off in every other view of a stretch it leads that then falls silent; a lagging leader-to-be; clients with a small window that fall silent and return (a proposer without commands waits for its view timer). Progress is a sliding window: no member goes 3*(ChainLength+1) views (or twice as many timer expiries) without committing."
            " Pass B: every step of the runs without Byzantine action is also replayed through the deterministic replica model spec/HotStuff.tla (Trace_R.tla) -- post-state, signatures, commits, view changes and every message sent must be exactly what the model computes (drift is reported as a warning)."
            " View timer: every call the synchronizer makes on its ViewDuration is recorded (Duration() = the one-shot timer is armed for the replica's current view; a timer the scheduler fires is spent); TLC checks after every step that the stepping replica's timer is armed for the view it is in (Trace_P!TimerStep), the replica model predicts the armed view and the call sequence exactly (Pass B), and MC_HotStuff checks TimerLive exhaustively."
            ,
            "Commands are always available; the bound is measured on the stepping member's view.", "DESIGN.md section 6, C05"),
    "C06": ("model_checking",
            "TLC evaluates the property formulas of spec/Trace_P.tla on every step of recorded executions of real replicas under an adversarial scheduler (trace validation, Pass A)",
            "Real ClientIO and CommandCache run in every replica; client requests go through the real ExecCommand handler (and a registration shortcut), late arrivals included; TLC checks execute-event order against the committed chain, the exactly-once count, digest equality at equal counts across replicas, prefix-related executed sequences and at-most-one / success-implies-executed outcomes."
            " TLC-generated scripts (spec/generated/scripts.ndjson: behaviours of HotStuffAbs that violate Agreement when one rule is weakened, and behaviours of the correct model) are played against real replicas by a Byzantine leader (hsverif attack) and judged the same way. Pass B: every step of the runs without Byzantine action is also replayed through the deterministic replica model spec/HotStuff.tla (Trace_R.tla) -- post-state, signatures, commits, view changes and every message sent must be exactly what the model computes (drift is reported as a warning).",
            "Byzantine keys count as having signed everything; one scheduler step = one delivery run to quiescence.", "DESIGN.md section 6, C06"),
    "C07": ("model_checking",
            "TLC evaluates the property formulas of spec/Trace_P.tla on every step of recorded executions of real replicas under an adversarial scheduler (trace validation, Pass A)",
            "TLC checks on every step of the recorded executions that view, high QC, high TC and committed view never decrease, that every view increment is signalled one view at a time, and that each increment is backed by a quorum of real vote signatures for a block of a view >= the old view or real timeout signatures for such a view (ground truth from the signing log)."
            " TLC-generated scripts (spec/generated/scripts.ndjson: behaviours of HotStuffAbs that violate Agreement when one rule is weakened, and behaviours of the correct model) are played against real replicas by a Byzantine leader (hsverif attack) and judged the same way. Pass B: every step of the runs without Byzantine action is also replayed through the deterministic replica model spec/HotStuff.tla (Trace_R.tla) -- post-state, signatures, commits, view changes and every message sent must be exactly what the model computes (drift is reported as a warning).",
            "Byzantine keys count as having signed everything; one scheduler step = one delivery run to quiescence.", "DESIGN.md section 6, C07"),
    "C02": ("model_checking",
            "TLA+ Cert module (abstract signatures = who really signed what; Verify*/BatchVerify* as coded, Sound* = the property) model-checked by TLC; TLC line-check of verdicts of the real cert.Authority on crafted certificates",
            "TLC checks on the model that acceptance implies soundness over all small signature lists (negative control: the pre-fix counting rule is refuted). "
            "Crafted QC/TC/AggQC (honest assemblies via Create*, every structural mutation family, random structures) are instantiated with real keys for "
            "ECDSA/EdDSA/BLS, n in 1..13, cache on/off, verified by the real Authority of two replicas; TLC judges each verdict against Sound* (Pass A), the "
            "completeness direction for honest assemblies, the reported high QC, and against the implementation-shaped Verify* (Pass B).",
            "A single signature check of each scheme is ground truth; BLS aggregates contain only atoms added by the harness.", "DESIGN.md section 6, C02"),
    "C04": ("model_checking",
            "TLA+ Rules module (published rules Ref* next to the rules as coded) model-checked by TLC over all small forests and orders; TLC line-check of decisions of the real ruleset objects",
            "TLC checks Impl = Ref over every forest of 3 blocks and every presentation order (negative control: the old SimpleHotStuff commit rule is refuted). The real "
            "ChainedHotStuff/SimpleHotStuff/FastHotStuff objects over a real Blockchain are driven over every forest of 3 (thorough: 4) blocks x every order, and random "
            "forests up to 12 blocks; TLC recomputes each presentation with the published rules (Pass A) and with the code-shaped rules (Pass B) and compares vote, lock and "
            "commit at every step.",
            "QC labels equal the certified block's view; a rule condition that mentions an unstored block does not hold.", "DESIGN.md section 6, C04"),
    "C08": ("model_checking",
            "TLA+ Pacemaker module (collector as coded vs the per-view count of correctly signed timeouts) model-checked by TLC over all interleavings; TLC replay of timeout traffic fed to one real replica whose emitted certificates are verified by the other real replicas",
            "TLC exhausts all interleavings of timeout messages over three views (good/bad signatures, duplicates, n=4) and shows the bag-based collector fires exactly when "
            "the per-view count reaches the quorum (negative control: cross-view counting refuted). Seeded timeout traffic (future/past views, duplicates, wrong-key, "
            "wrong-view, absent and replayed signatures, bad message signatures, own timer expiries) is fed to a real Synchronizer placed at/behind/ahead of the timed-out "
            "view, n in {4,7}, both timeout rules, three schemes; TLC checks at every message that a certificate leaves the replica exactly at the quorum step, from those "
            "messages only, verifies at all other replicas (TC and aggregate QC), and moves a replica in that view on (Pass A); the real bag equals the model's (Pass B).",
            "Crafted timeouts carry only the genesis QC as sync info.", "DESIGN.md section 6, C08"),
    "C09": ("model_checking",
            "TLA+ VoteCollector module (countable votes vs the collector as coded; Kauri merge rule) model-checked by TLC over all arrival orders; TLC replay of vote / contribution traffic fed to a real VotingMachine (sync and scheduler-gated async verification) and to real Kauri nodes",
            "TLC exhausts all arrival orders of honest and hostile votes (duplicate, invalid, two-signer, relayed, wrong block) and shows the collector forms the certificate "
            "exactly when the countable votes reach the quorum (negative control: accepting multi-signer votes is refuted - the collector wedges). A real replica's "
            "VotingMachine is fed, per round, the puppet leader's proposal and votes in scheduler order (before/after the block, sync and async verification with the "
            "completion order chosen by a gated crypto wrapper), n in {4,7}, three schemes; real Kauri nodes (root, inner, leaf) are fed contributions (valid, overlapping, "
            "invalid, wrong view, absent signature) and timer expiry. TLC checks that certificates appear exactly at the quorum step, contain only counted votes, verify "
            "at all other replicas, that hostile votes never prevent them, and that every partial aggregate sent to the parent verifies.",
            "Vote sender ids are transport-authenticated; the wait timer of a Kauri round fires at most once.", "DESIGN.md section 6, C09"),
    "C10": ("model_checking",
            "TLA+ Wire module defines the message grammar and the Verifies predicate; TLC enumerates it, the harness feeds every shape to the real service handlers of a running replica, TLC judges panic-freedom and state preservation (line check)",
            "Every message shape of Wire!Messages (15 264 shapes; all of them in the thorough tier, a stratified sample in the quick tier) is instantiated as a real protobuf "
            "message with real keys and handed to the real serviceImpl handlers / event loop of a running replica in three states, per scheme, cache and timeout-rule "
            "configuration. Panics are recovered and located. TLC checks: no panic, and when the grammar's Verifies predicate says nothing in the message verifies, view, "
            "high QC/TC, lock, committed block and vote history are unchanged; it also re-derives the Verifies flag from the grammar.",
            "Sender ids are supplied as the transport would; protobuf decoding is trusted.", "DESIGN.md section 6, C10"),
    "C11": ("model_checking",
            "TLA+ SigCache module (LRU state machine, key derivation) model-checked by TLC for transparency; TLC state-machine replay of operation sequences run on a cached and an uncached real Authority",
            "TLC exhausts the cache model over a small request universe and shows cached verdict = uncached verdict in every reachable state (negative control: the "
            "old key and a shared single/batch key space are refuted); a second model, MC_SigCacheConc, has overlapping callers (two critical sections per call) and refutes a "
            "design that reserves the key before verifying. Seeded operation sequences (sign, verify, batch-verify, combine, overlapping calls for one signature through a gated scheme, list signatures re-cut at another entry boundary, replays with altered message/batch/view/signer labels, capacities "
            "1..4 and 50, three schemes) run on two real authorities; TLC replays the trace, compares verdicts at every step (Pass A), the uncached verdict with the "
            "Cert model, and the real LRU list with the model's after every operation (Pass B).",
            "Re-cut list signatures move one entry boundary.", "DESIGN.md section 6, C11"),
    "C12": ("model_checking",
            "TLA+ Wire module defines the object grammar; TLC enumerates it (spec -> code), the harness round-trips every shape with real keys, TLC compares the projections and checks grammar coverage (line check)",
            "Every object shape of Wire!Objects x three schemes (4 replicas) and x BLS in a 67-replica configuration goes through ToProto/Marshal/Unmarshal/FromProto; hash, bytes-to-sign, participants, acted-on fields and the "
            "verification verdict at another replica are compared before/after by TLC, which also checks that every shape of the grammar was exercised. Fetch replies go through "
            "the real RequestBlockQF. TLA+ serves as enumerator and oracle language here (equality), as stated in DESIGN 9.",
            "protobuf's codec is trusted.", "DESIGN.md section 6, C12"),
    "C13": ("model_checking",
            "TLA+ BlockStore module over block forests (reference ancestry, prune soundness, code-shaped walk/index) and MC_BlockStoreConc (Get/Store under concurrency, model-checked with two negative controls); TLC state-machine replay of store/get/extends/commit sequences run on the real Blockchain, RequestBlockQF and Committer",
            "Seeded random forests (forks, equal views on different branches, gaps, unobtainable parents) and a structured equivocation-next-to-gap family are driven "
            "through the real Blockchain (fetch through the real RequestBlockQF with lying replies) and the real Committer; TLC replays each sequence and checks "
            "content addressing, exact ancestry where the store can know it, and that abandoned blocks are off the committed chain and reported once -- at failed commits too, and across commits (Pass A), plus the "
            "code-shaped Extends walk, stored set and reported set (Pass B).",
            "Extends is judged only when every block the walk needs is stored or fetchable.", "DESIGN.md section 6, C13"),
    "C14": ("model_checking",
            "TLA+ EventQueue/EventLoop modules: ring buffer refines the ideal FIFO (TLC, exhaustive); TLC state-machine replay of push/pop and register/add/defer/tick sequences run on the real queue and EventLoop; concurrent producers under -race validated by TLC",
            "TLC proves the ring-buffer model refines a bounded FIFO with exact drop reporting for capacities 1..4. Every push/pop sequence to a depth (and random ones) on "
            "the real queue, and seeded sequences of register/unregister/AddEvent/DelayUntil/Tick (priority and run-in-AddEvent handlers, handlers that defer during "
            "dispatch, overflow) on a real EventLoop are replayed by TLC against the property-level rules (Pass A) and the code-order model (Pass B). Concurrent "
            "producers against the running loop (race detector on) are checked for loss, duplication and real-time order.",
            "Handlers do not register/unregister from inside a dispatch in the drivers; a Go race report in core/eventloop counts as a violation.", "DESIGN.md section 6, C14"),
    "C18": ("model_checking",
            "TLA+ Twins module (well-formedness, odometer, reference verdict) model-checked by TLC; TLC line-check of the real generator's drained output and of real checkCommits verdicts",
            "TLC checks the odometer and the verdict loop against the reference verdict on all small synthetic logs. Every generator setting (n<=5, twins<=2, partitions<=3, "
            "views<=4) is drained from the real generator (completely when the announced number is within the tier's limit), twice for determinism, shuffled with equal "
            "seeds, and round-tripped through JSON; TLC checks count, non-repetition, well-formedness, permutation (Pass A) and the odometer order (Pass B). Real "
            "checkCommits verdicts on all commit-log pairs/triples and seeded larger sets (with twin pairs) are compared with the reference verdict.",
            "Settings whose announced number exceeds the limit are checked on a prefix.", "DESIGN.md section 6, C18"),
    "C19": ("model_checking",
            "TLA+ IDSet module (byte-level Bitfield model vs ideal set) exhausted by TLC; TLC trace validation of operation sequences run on the real Bitfield and real Sign/Combine",
            "TLC exhausts the byte-level model against the ideal set for all insertion orders over boundary ids; operation sequences (exhaustive to a depth over "
            "boundary ids, random over 1..300, all 0/1/2-byte strings in the thorough tier; iteration stopped early by the callback) are executed on the real crypto.Bitfield and the real "
            "ECDSA/EdDSA/BLS Sign/Combine, and TLC replays the recorded trace comparing every observation with the ideal set.",
            "TLC soundness; ids >= 1.", "DESIGN.md section 6, C19"),
    "C17": ("model_checking",
            "TLA+ KauriTree module: OneTree checked by TLC on the heap-layout model; TLC line-check of relations dumped from real tree.Tree instances of every replica",
            "OneTree is stated on the relations only. TLC checks it on the layout model (n<=24, all permutations n<=5) and on the relations dumped by the real "
            "tree.Tree of every replica for n in 1..40, bf 2..6, all permutations for small n and seeded permutations otherwise.",
            "TLC soundness; position lists hold distinct ids.", "DESIGN.md section 6, C17"),
    "C15": ("model_checking",
            "TLA+ CmdCache module: all interleavings of add/mark/Get processes at lock granularity model-checked by TLC (FIFO, at-most-once, no loss, no lost wake-up); TLC replay of add/mark/get sequences and concurrent runs on the real CommandCache",
            "TLC exhausts the cache with Get as a process blocked on the capacity-1 ready channel (2 clients x 2 sequence numbers, batch size 2, 2 getters) for full FIFO "
            "batches, at-most-once, no loss and no lost wake-up. Seeded add/mark/get sequences on the real cache are replayed by TLC against the ideal 'oldest fresh "
            "commands' rule including when a Get must block (Pass A) and against the token/scan model (Pass B); concurrent producers/consumers run under -race and are "
            "checked for hangs, short, duplicated or reordered batches.",
            "Each (client, sequence number) is added once, clients send in order; a sequential Get that can return does so within 25 ms.", "DESIGN.md section 6, C15"),
    "C16": ("model_checking",
            "TLA+ Leader module checked by TLC for n<=64; TLC line-check of GetLeader tables and of carousel/reputation answers of two independent real instances",
            "Round-robin validity and one-turn-each are checked by TLC on the model for every n<=64 and on the real tables (views near 0, 2^16..2^64); carousel "
            "answers on generated committed chains are checked to lie in the candidate set defined in the spec and to agree across two independent instances; "
            "reputation answers must be deterministic; panics are recovered and reported.",
            "TLC soundness; committed heads carry QCs with a quorum of distinct configured signers.", "DESIGN.md section 6, C16"),
}

NOT_YET = {}


def main():
    props = [json.loads(l) for l in open(os.path.join(HERE, "properties.jsonl"))]
    checks = []
    na = []
    for p in props:
        pid = p["id"]
        if pid in CHECKS:
            cat, tech, text, note, ref = CHECKS[pid]
            checks.append({
                "property_id": pid,
                "quick_cmd": "./check %s --tier quick" % pid,
                "thorough_cmd": "./check %s --tier thorough" % pid,
                "evidence_file": "/verif/evidence/%s.json" % pid,
                "replay_cmd_template": "./check %s --replay {path}" % pid,
                "engine": "hsverif+tlc",
                "level_claimed": {"category": cat, "text": text, "design_ref": ref},
                "level_note": note,
                "technique": tech,
            })
        else:
            na.append({"property_id": pid, "reason": NOT_YET.get(pid, "check not built yet in this round (work in progress; see DESIGN.md section 11)")})
    m = {
        "version": 1,
        "setup_cmd": "cd /verif && python3 lib/setup.py",
        "hooks": {
            "guard": "verif",
            "enable": "go build -tags verif -overlay <generated overlay.json> (harness files live in /verif/harness/overlay and are injected at build time; /repo has no hook commits)",
            "baseline_off_cmd": BASELINE_OFF,
            "source_commits": [],
            "add_only": True,
        },
        "engines": [
            {"name": "hsverif+tlc", "path": "/verif/check",
             "serves_properties": sorted(CHECKS),
             "kind_free_text": "TLA+ specifications in /verif/spec checked with TLC (and Apalache for C20); Go harness "
                               "(/verif/harness/overlay, injected into /repo's build with -overlay, tag verif) drives the real code and "
                               "records NDJSON traces; TLC validates the traces against the specifications (property invariants = Pass A, "
                               "conformance to the implementation-shaped model = Pass B)"},
        ],
        "checks": checks,
        "not_applicable": na,
        "notes": "See DESIGN.md. Verdicts come only from behaviour of the real code judged by TLC against the TLA+ specification.",
    }
    with open(os.path.join(HERE, "MANIFEST.json"), "w") as fh:
        json.dump(m, fh, indent=1)
    print("MANIFEST.json: %d checks, %d not_applicable" % (len(checks), len(na)))


if __name__ == "__main__":
    main()
