"""Shared code of the protocol-trace checks (C01, C03, C05, C06, C07): run `hsverif proto`, let TLC
evaluate one property of spec/Trace_P.tla on the recorded executions."""
import json
import os
import re

import vlib


def run_id(rows, l):
    k = l - 1
    while k >= 0 and rows[k]["op"] != "init":
        k -= 1
    return k


def judge(d, rows, cfg, timeout=3000):
    """Returns (TLCResult, offending line index or None)."""
    vlib.write_ndjson(os.path.join(d, "trace.ndjson"), rows)
    rt = vlib.tlc("Trace_P", cfg=cfg, cwd=d, workers=1, timeout=timeout, heap="16g", stack="256m")
    if rt.status == "violation":
        m = re.findall(r"^/\\ l = (\d+)$|^l = (\d+)$", rt.out, re.M)
        l = int([a or b for a, b in m][-1]) if m else 0
        return rt, l
    return rt, None


def split_runs(rows):
    runs, cur = [], []
    for r in rows:
        if r["op"] == "init" and cur:
            runs.append(cur)
            cur = []
        cur.append(r)
    if cur:
        runs.append(cur)
    return runs


def brief(line):
    return {k: line[k] for k in ("kind", "node", "ev", "pre", "post", "commits", "signed", "vcs", "new", "panic") if k in line}


import time


def model_checks(d, tier, which):
    """Exhaustive TLC checks of the protocol models: HotStuffAbs (abstract, view-ordered; negative control = a model without
    the lock must be refuted) and MC_HotStuff (the replica model of HotStuff.tla composed with a lossy network and view timers;
    non-vacuity = a commit must be reachable).  A violation in a model alone is not a verdict about the code (exit 2)."""
    plan = []
    for tag in ("", "_simple"):
        plan.append(("HotStuffAbs", "HotStuffAbs%s_%s.cfg" % (tag, "q" if tier == "quick" else "t"), "ok", None))
        plan.append(("MC_HotStuff", "MC_HotStuff%s_%s.cfg" % (tag, "q" if tier == "quick" else "t"), "ok", None))
        if tier != "quick":
            plan.append(("HotStuffAbs", "HotStuffAbs%s_p3.cfg" % tag, "ok", None))
        plan.append(("MC_HotStuff", "MC_HotStuff%s_live.cfg" % tag, "violation", "NobodyCommits"))
    plan.append(("HotStuffAbs", "HotStuffAbs_neg.cfg", "violation", "Agreement"))
    plan.append(("HotStuffAbs", "HotStuffAbs_neg_revote.cfg", "violation", "OneVotePerView"))
    if tier != "quick":
        plan.append(("HotStuffAbs", "HotStuffAbs_simple_neg.cfg", "violation", "Agreement"))
    out = []
    for module, cfg, want, inv in plan:
        r = vlib.tlc(module, cfg=cfg, cwd=d, workers=12, timeout=3000, heap="24g", stack="512m")
        if r.status != want or (inv and r.violated != inv):
            raise vlib.InfraError("model check %s/%s: expected %s%s, got %s %s\n%s" % (module, cfg, want, " of " + inv if inv else "", r.status, r.violated, r.out[-1500:]))
        out.append({"module": module, "cfg": cfg, "result": "holds" if want == "ok" else "refuted as required (%s)" % inv,
                    "generated": r.generated, "distinct": r.distinct, "wall_s": round(r.wall, 1)})
    return out


def _corrupt(prop, run):
    """One recorded field of one run is altered so that the property no longer holds on the record; returns the altered run or None."""
    import copy
    rr = copy.deepcopy(run)
    steps = [x for x in rr if x["op"] == "step"]
    if prop == "C01":
        for x in steps:
            if x["commits"]:
                x["commits"] = x["commits"] + [x["commits"][-1]]      # the same block committed twice
                return rr
    if prop == "C03":
        for i, x in enumerate(steps):
            v = [s for s in x["signed"] if s[0] == "vote"]
            if v:
                for y in steps[i + 1:]:
                    if y["node"] == x["node"]:
                        y["signed"] = y["signed"] + [v[0]]                # a second vote in a view already voted in
                        return rr
    if prop == "C06":
        for x in steps:
            if x["exec"]:
                x["exec"] = x["exec"][1:]                                  # one executed command is not reported
                return rr
    if prop == "C07":
        for x in steps:
            if x["post"]["view"] > x["pre"]["view"]:
                x["vcs"] = x["vcs"][1:]                                    # a view increment that was not signalled
                return rr
    if prop == "C05":
        healed = False
        hit = False
        for x in rr:
            if x["op"] == "heal":
                healed = True
            if healed and x["op"] == "step" and x["commits"]:
                x["commits"], x["exec"] = [], []                             # nothing is committed after the heal
                hit = True
        return rr if hit else None
    return None


def binding_selftest(d, rows, prop, cfg):
    """The trace specification must reject a record that breaks the property: one field of one real run is corrupted and
    TLC has to report the violation.  An oracle that accepts the corrupted record is vacuous (infrastructure error)."""
    for run in split_runs(rows):
        if run[0]["op"] != "init" or (prop == "C05" and run[0]["rs"] == "fasthotstuff"):
            continue
        bad = _corrupt(prop, run)
        if bad is None:
            continue
        rt, l = judge(d, bad, cfg)
        if rt.status != "violation":
            raise vlib.InfraError("binding self-test: the corrupted record was accepted (%s, %s)" % (prop, rt.status))
        return "a corrupted record (one field of a real run altered) is rejected at line %d" % (l or 0)
    return "no run suitable for corruption"


def conformance(d, rows, max_rounds=6):
    """Pass B: replay the runs without Byzantine action through the replica model (spec/HotStuff.tla via Trace_R.tla).
    Returns coverage fields; drift is a warning, never a verdict."""
    modelled_steps, modelled_runs = 0, 0
    for rr in split_runs(rows):
        if rr[0]["op"] != "init" or rr[0]["rs"] not in ("chainedhotstuff", "simplehotstuff", "fasthotstuff") or not (rr[0]["byz"] == [] or rr[0].get("crashOnly")):
            continue
        k = next((i for i, x in enumerate(rr) if x["op"] == "byz"), len(rr))
        steps = sum(1 for x in rr[:k] if x["op"] == "step")
        modelled_steps += steps
        modelled_runs += 1 if steps else 0
    drift = []
    cur = rows
    for _ in range(max_rounds):
        vlib.write_ndjson(os.path.join(d, "trace.ndjson"), cur)
        rt = vlib.tlc("Trace_R", cfg="Trace_R.cfg", cwd=d, workers=1, timeout=3000, heap="16g", stack="512m")
        if rt.status == "ok":
            break
        if rt.status != "violation":
            raise vlib.InfraError("conformance check: %r\n%s" % (rt, rt.out[-2000:]))
        m = re.findall(r"^/\\ l = (\d+)$|^l = (\d+)$", rt.out, re.M)
        l = int([a or b for a, b in m][-1]) if m else 0
        if not l:
            raise vlib.InfraError("conformance check: no position\n%s" % rt.out[-2000:])
        line = cur[l - 1]
        k = run_id(cur, l)
        # the model's prediction is printed (ALIAS) with the state before the step
        dm = re.findall(r"/\\ diff = (<<.*?>>)\n\n", rt.out, re.S)
        drift.append({"run": {a: cur[k].get(a) for a in ("n", "rs", "byz", "lmode", "script")}, "step": l - k, "line": brief(line),
                      "model_vs_log": re.sub(r"\s+", " ", dm[-2] if len(dm) >= 2 else (dm[-1] if dm else ""))[:1500]})
        # drop that run, keep checking the others
        end = next((i for i in range(l, len(cur)) if cur[i]["op"] == "init"), len(cur))
        cur = cur[:k] + cur[end:]
        if not cur:
            break
    return {"conformance_model": "spec/HotStuff.tla (replica model) via spec/Trace_R.tla", "conformance_steps_checked": modelled_steps,
            "conformance_runs_checked": modelled_runs, "conformance_drift_runs": len(drift), "conformance_drift": drift[:3]}


def _c01_key(line, rows, l):
    """agreement:<ruleset>, or agreement:<ruleset>:<job> for a run that plays one of the hand-written scripts (spec/handwritten):
    a known finding names exactly one such history, any other divergence of the same ruleset has another key and is reported"""
    r0 = rows[run_id(rows, l)]
    job = (r0.get("script") or {}).get("job", "")
    return "agreement:%s:%s" % (r0["rs"], job) if job.startswith("fhs-") else "agreement:%s" % r0["rs"]


KEYS = {
    "C01": _c01_key,
    "C03": lambda line, rows, l: "vote:%s" % rows[run_id(rows, l)]["rs"],
    "C06": lambda line, rows, l: "exec:%s" % rows[run_id(rows, l)]["rs"],
    "C07": lambda line, rows, l: "pacemaker:%s" % rows[run_id(rows, l)]["rs"],
    "C05": lambda line, rows, l: "progress:%s" % rows[run_id(rows, l)]["rs"],
}
WHAT = {
    "C01": "honest replicas' committed sequences diverge or are not a hash-linked chain",
    "C03": "an honest replica signed a vote that breaks the vote discipline",
    "C06": "execution order / exactly-once / digest / outcome rule broken",
    "C07": "a replica's view or certified state moved backwards, without evidence, or without signalling",
    "C05": "a member of the synchronous quorum did not commit within the bound after the heal",
}


SCRIPTS = os.path.join(vlib.SPEC, "generated", "scripts.ndjson")
HANDWRITTEN = os.path.join(vlib.SPEC, "handwritten", "fhs_scripts.ndjson")


def play_handwritten(d, seed):
    """The hand-written adversary scripts (Fast-HotStuff: proposals that carry a genuine aggregate QC assembled from the honest
    replicas' own timeout messages), played by the same player."""
    tr, st = os.path.join(d, "attack_hw.ndjson"), os.path.join(d, "attack_hw_status.ndjson")
    vlib.run_harness(["attack", "-scripts", HANDWRITTEN, "-out", tr, "-status", st, "-seed", seed], timeout=600)
    status = vlib.read_ndjson(st)
    return tr, {"handwritten_scripts": [{k: s[k] for k in ("job", "status", "at", "commits", "notes")} for s in status]}


def play_scripts(d, seed, max_scripts):
    """Scripts that TLC generated from spec/HotStuffAbs.tla (behaviours of the correct model and Agreement-violating
    behaviours of models with one weakened rule) are played against real replicas by `hsverif attack`."""
    tr, st = os.path.join(d, "attack.ndjson"), os.path.join(d, "attack_status.ndjson")
    vlib.run_harness(["attack", "-scripts", SCRIPTS, "-out", tr, "-status", st, "-seed", seed, "-max", max_scripts], timeout=3000)
    status = vlib.read_ndjson(st)
    summ = {}
    for s in status:
        e = summ.setdefault("%s/%s" % (s["rs"], s["weak"]), {})
        e[s["status"]] = e.get(s["status"], 0) + 1
    # what the correct model predicts: behaviours of the correct model and attacks on a weakened COMMIT rule consist of legal
    # votes only (every step is followed; the real commit rule then commits nothing conflicting); attacks on a weakened vote or
    # lock rule contain a vote the correct rules refuse
    def expected(s):
        return "completed" if s["kind"] == "follow" or s["weak"] in ("commit2", "nodirect", "gaplow", "gaphigh") else "refused"
    drift = [s for s in status if s["status"] != expected(s)]
    return tr, {"scripts_played": len(status), "script_outcomes": summ,
                  "script_conformance_drift": [{k: s[k] for k in ("job", "idx", "status", "at", "notes")} for s in drift[:10]],
                  "script_conformance_drift_count": len(drift)}


# the judge works on chunks of whole runs (runs are independent: every run starts from an "init" line), so that the memory it needs
# does not grow with the size of the tier
MAX_ROWS = int(os.environ.get("VERIF_MAX_ROWS", "150000"))


def iter_runs(path, partial=False):
    """Yields the runs of a trace file one by one (lists of rows, each starting with its "init" line)."""
    cur = []
    with open(path) as fh:
        for ln in fh:
            ln = ln.strip()
            if not ln:
                continue
            try:
                x = json.loads(ln)
            except ValueError:
                if partial:
                    break          # the driver died in the middle of this line
                raise
            if x["op"] == "init" and cur:
                yield cur
                cur = []
            cur.append(x)
    if partial:
        while cur and cur[-1]["op"] not in ("end", "step"):
            cur.pop()
    if cur:
        yield cur


def iter_chunks(files, max_rows=None):
    max_rows = max_rows or MAX_ROWS
    rows = []
    for path, partial in files:
        for rr in iter_runs(path, partial):
            rows.extend(rr)
            if len(rows) >= max_rows:
                yield rows
                rows = []
    if rows:
        yield rows


def run_property(prop, tier, seed, driver_args, rule, extra_cov=None, assumptions=None, scripts=0, more=(), models=False, handwritten=False):
    """Common body of C01/C03/C05/C06/C07."""
    t0 = time.time()
    v = vlib.Verdict(prop)
    script_cov = {}
    mc = []
    st = {"states": 0, "cmd": "", "runs": 0, "nsteps": 0, "commits": 0, "votes": 0, "byzacts": 0, "incs": 0, "panics": 0, "by_rs": {},
          "samples": None, "extra": {}, "chunks": 0}
    conf = {"conformance_model": "spec/HotStuff.tla (replica model) via spec/Trace_R.tla", "conformance_steps_checked": 0,
            "conformance_runs_checked": 0, "conformance_drift_runs": 0, "conformance_drift": []}
    with vlib.scratch(prop) as d:
        if models:
            mc = model_checks(d, tier, prop)
        files = []
        hw_files = []
        tr = os.path.join(d, "trace_base.ndjson")
        died = None
        try:
            vlib.run_harness(["proto", "-out", tr, "-seed", seed] + driver_args, timeout=3000, partial_ok=True)
            files.append((tr, False))
        except vlib.HarnessDied as e:
            # the code under test took the driver down or hung it: what happened before is on disk and is judged; only if that
            # shows nothing wrong is this an infrastructure error
            died = str(e)
            if not os.path.exists(tr) or not next(iter_runs(tr, True), None):
                raise vlib.InfraError(died)
            files.append((tr, True))
        for i, extra in enumerate(more):
            # further batches of runs (e.g. one scenario of the library only), same seed
            tr2 = os.path.join(d, "trace_more%d.ndjson" % i)
            vlib.run_harness(["proto", "-out", tr2, "-seed", seed] + list(extra), timeout=3000)
            files.append((tr2, False))
        if scripts:
            apath, script_cov = play_scripts(d, seed, scripts)
            files.append((apath, False))
        if handwritten:
            hpath, hcov = play_handwritten(d, seed)
            script_cov.update(hcov)
            hw_files = [(hpath, False)]     # judged as a chunk of their own (a known finding among them costs one more pass over a few lines only)
        cfg = "Trace_P_%s.cfg" % prop
        import itertools
        for allrows in itertools.chain(iter_chunks(files), iter_chunks(hw_files) if hw_files else ()):
            rows = allrows
            for _ in range(12):
                rt, l = judge(d, rows, cfg)
                st["states"] += rt.distinct
                st["cmd"] = rt.cmd
                if rt.status == "ok":
                    break
                if rt.status != "violation" or not l:
                    raise vlib.InfraError("trace check: %r\n%s" % (rt, rt.out[-2000:]))
                line = rows[l - 1]
                k = run_id(rows, l)
                key = KEYS[prop](line, rows, l)
                v.violation(key, "%s (run: n=%d %s byz=%s leaders=%s; step %d): %s" % (
                    WHAT[prop], rows[k]["n"], rows[k]["rs"], rows[k]["byz"], rows[k]["lmode"], l - k, json.dumps(brief(line))[:900]),
                    {"run": rows[k:l], "harness": ("hsverif attack -scripts spec/generated/scripts.ndjson -seed %d (script %s)" % (seed, json.dumps(rows[k]["script"])))
                     if "script" in rows[k] else "hsverif proto -seed %d %s" % (seed, " ".join(str(a) for a in driver_args))})
                # drop the runs with this key and keep judging the rest
                keep = []
                for rr in split_runs(rows):
                    rkey = KEYS[prop](None, rr, 1)
                    if rkey != key:
                        keep += rr
                rows = keep
                if not rows:
                    break
            cc = conformance(d, allrows)
            for k2 in ("conformance_steps_checked", "conformance_runs_checked", "conformance_drift_runs"):
                conf[k2] += cc[k2]
            conf["conformance_drift"] = (conf["conformance_drift"] + cc["conformance_drift"])[:3]
            if st["chunks"] == 0:
                conf["binding_selftest"] = binding_selftest(d, allrows, prop, cfg) if not v.violations else "skipped (violations reported)"
            st["chunks"] += 1
            # coverage counters of this chunk
            runs = split_runs(allrows)
            st["runs"] += len(runs)
            for x in allrows:
                if x["op"] == "step":
                    st["nsteps"] += 1
                    st["commits"] += len(x["commits"])
                    st["votes"] += sum(1 for sg in x["signed"] if sg[0] == "vote")
                    st["incs"] += x["post"]["view"] - x["pre"]["view"]
                    st["panics"] += 1 if x["panic"] else 0       # (panics inside replicas discredit nothing here; they belong to C10)
                elif x["op"] == "byz":
                    st["byzacts"] += 1
            for rr in runs:
                k3 = "%s/n=%d" % (rr[0]["rs"], rr[0]["n"])
                e = st["by_rs"].setdefault(k3, {"runs": 0, "commits": 0, "with_byz": 0})
                e["runs"] += 1
                e["commits"] += sum(len(x["commits"]) for x in rr if x["op"] == "step")
                e["with_byz"] += 1 if rr[0]["byz"] else 0
            if st["samples"] is None:
                sample = next((x for x in allrows if x["op"] == "step" and x["commits"]), allrows[min(1, len(allrows) - 1)])
                st["samples"] = [allrows[0], brief(sample)]
            if extra_cov:
                for k4, val in extra_cov(allrows).items():
                    st["extra"][k4] = st["extra"].get(k4, 0) + val
    if died and not v.violations:
        raise vlib.InfraError("driver died and the trace up to there shows no violation: " + died[:1500])
    rc = v.finish()
    cov = {
        "states": st["states"], "transitions": st["states"], "traces_validated_against_impl": st["runs"],
        "samples": st["samples"] or [],
        "evaluations": st["nsteps"], "distinct_nontrivial": st["runs"],
        "rule": rule, "runs": st["runs"], "steps": st["nsteps"], "commit_events": st["commits"], "votes_signed": st["votes"], "byzantine_actions": st["byzacts"],
        "view_increments": st["incs"], "by_ruleset": st["by_rs"], "replica_panics": st["panics"], "checker_cmd": st["cmd"], "judged_in_chunks": st["chunks"],
    }
    cov.update(script_cov)
    cov.update(conf)
    if mc:
        cov["model_checks"] = mc
        cov["states"] = st["states"] + sum(x["distinct"] for x in mc)
        cov["transitions"] = st["states"] + sum(x["generated"] for x in mc)
    if conf["conformance_drift_runs"]:
        print("[%s] WARNING: %d run(s) deviate from the replica model spec/HotStuff.tla (conformance drift, not a verdict); first: %s" % (
            prop, conf["conformance_drift_runs"], json.dumps(conf["conformance_drift"][0])[:700]))
    if script_cov.get("script_conformance_drift_count"):
        print("[%s] WARNING: %d TLC-generated scripts were not followed as the model predicts (conformance drift, not a verdict)" % (
            prop, script_cov["script_conformance_drift_count"]))
    cov.update(st["extra"])
    vlib.write_evidence(prop, tier, seed, "model_checking", cov, time.time() - t0, violations=len(v.violations), assumptions=assumptions or [])
    return rc
