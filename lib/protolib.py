"""Shared code of the protocol-trace checks (C01, C03, C05, C06, C07): run `hsverif proto`, let TLC
evaluate one property of spec/Trace_P.tla on the recorded executions."""
import json
import os
import re

import vlib


def run_id(rows, l):
    k = l - 1
    while k >= 0 and rows[k]["op"] != "init":
        k -= 1
    return k


def judge(d, rows, cfg, timeout=3000):
    """Returns (TLCResult, offending line index or None)."""
    vlib.write_ndjson(os.path.join(d, "trace.ndjson"), rows)
    rt = vlib.tlc("Trace_P", cfg=cfg, cwd=d, workers=1, timeout=timeout, heap="16g", stack="256m")
    if rt.status == "violation":
        m = re.findall(r"^/\\ l = (\d+)$|^l = (\d+)$", rt.out, re.M)
        l = int([a or b for a, b in m][-1]) if m else 0
        return rt, l
    return rt, None


def split_runs(rows):
    runs, cur = [], []
    for r in rows:
        if r["op"] == "init" and cur:
            runs.append(cur)
            cur = []
        cur.append(r)
    if cur:
        runs.append(cur)
    return runs


def brief(line):
    return {k: line[k] for k in ("kind", "node", "ev", "pre", "post", "commits", "signed", "vcs", "new", "panic") if k in line}


import time


def model_checks(d, tier, which):
    """Exhaustive TLC checks of the protocol models: HotStuffAbs (abstract, view-ordered; negative control = a model without
    the lock must be refuted) and MC_HotStuff (the replica model of HotStuff.tla composed with a lossy network and view timers;
    non-vacuity = a commit must be reachable).  A violation in a model alone is not a verdict about the code (exit 2)."""
    plan = []
    for tag in ("", "_simple"):
        plan.append(("HotStuffAbs", "HotStuffAbs%s_%s.cfg" % (tag, "q" if tier == "quick" else "t"), "ok", None))
        plan.append(("MC_HotStuff", "MC_HotStuff%s_%s.cfg" % (tag, "q" if tier == "quick" else "t"), "ok", None))
        if tier != "quick":
            plan.append(("HotStuffAbs", "HotStuffAbs%s_p3.cfg" % tag, "ok", None))
        plan.append(("MC_HotStuff", "MC_HotStuff%s_live.cfg" % tag, "violation", "NobodyCommits"))
    plan.append(("HotStuffAbs", "HotStuffAbs_neg.cfg", "violation", "Agreement"))
    plan.append(("HotStuffAbs", "HotStuffAbs_neg_revote.cfg", "violation", "OneVotePerView"))
    if tier != "quick":
        plan.append(("HotStuffAbs", "HotStuffAbs_simple_neg.cfg", "violation", "Agreement"))
    out = []
    for module, cfg, want, inv in plan:
        r = vlib.tlc(module, cfg=cfg, cwd=d, workers=12, timeout=3000, heap="24g", stack="512m")
        if r.status != want or (inv and r.violated != inv):
            raise vlib.InfraError("model check %s/%s: expected %s%s, got %s %s\n%s" % (module, cfg, want, " of " + inv if inv else "", r.status, r.violated, r.out[-1500:]))
        out.append({"module": module, "cfg": cfg, "result": "holds" if want == "ok" else "refuted as required (%s)" % inv,
                    "generated": r.generated, "distinct": r.distinct, "wall_s": round(r.wall, 1)})
    return out


def _corrupt(prop, run):
    """One recorded field of one run is altered so that the property no longer holds on the record; returns the altered run or None."""
    import copy
    rr = copy.deepcopy(run)
    steps = [x for x in rr if x["op"] == "step"]
    if prop == "C01":
        for x in steps:
            if x["commits"]:
                x["commits"] = x["commits"] + [x["commits"][-1]]      # the same block committed twice
                return rr
    if prop == "C03":
        for i, x in enumerate(steps):
            v = [s for s in x["signed"] if s[0] == "vote"]
            if v:
                for y in steps[i + 1:]:
                    if y["node"] == x["node"]:
                        y["signed"] = y["signed"] + [v[0]]                # a second vote in a view already voted in
                        return rr
    if prop == "C06":
        for x in steps:
            if x["exec"]:
                x["exec"] = x["exec"][1:]                                  # one executed command is not reported
                return rr
    if prop == "C07":
        for x in steps:
            if x["post"]["view"] > x["pre"]["view"]:
                x["vcs"] = x["vcs"][1:]                                    # a view increment that was not signalled
                return rr
    if prop == "C05":
        healed = False
        hit = False
        for x in rr:
            if x["op"] == "heal":
                healed = True
            if healed and x["op"] == "step" and x["commits"]:
                x["commits"], x["exec"] = [], []                             # nothing is committed after the heal
                hit = True
        return rr if hit else None
    return None


def binding_selftest(d, rows, prop, cfg):
    """The trace specification must reject a record that breaks the property: one field of one real run is corrupted and
    TLC has to report the violation.  An oracle that accepts the corrupted record is vacuous (infrastructure error)."""
    for run in split_runs(rows):
        if run[0]["op"] != "init" or (prop == "C05" and run[0]["rs"] == "fasthotstuff"):
            continue
        bad = _corrupt(prop, run)
        if bad is None:
            continue
        rt, l = judge(d, bad, cfg)
        if rt.status != "violation":
            raise vlib.InfraError("binding self-test: the corrupted record was accepted (%s, %s)" % (prop, rt.status))
        return "a corrupted record (one field of a real run altered) is rejected at line %d" % (l or 0)
    return "no run suitable for corruption"


def conformance(d, rows, max_rounds=6):
    """Pass B: replay the runs without Byzantine action through the replica model (spec/HotStuff.tla via Trace_R.tla).
    Returns coverage fields; drift is a warning, never a verdict."""
    modelled_steps, modelled_runs = 0, 0
    for rr in split_runs(rows):
        if rr[0]["op"] != "init" or rr[0]["rs"] not in ("chainedhotstuff", "simplehotstuff", "fasthotstuff") or not (rr[0]["byz"] == [] or rr[0].get("crashOnly")):
            continue
        k = next((i for i, x in enumerate(rr) if x["op"] == "byz"), len(rr))
        steps = sum(1 for x in rr[:k] if x["op"] == "step")
        modelled_steps += steps
        modelled_runs += 1 if steps else 0
    drift = []
    cur = rows
    for _ in range(max_rounds):
        vlib.write_ndjson(os.path.join(d, "trace.ndjson"), cur)
        rt = vlib.tlc("Trace_R", cfg="Trace_R.cfg", cwd=d, workers=1, timeout=3000, heap="16g", stack="512m")
        if rt.status == "ok":
            break
        if rt.status != "violation":
            raise vlib.InfraError("conformance check: %r\n%s" % (rt, rt.out[-2000:]))
        m = re.findall(r"^/\\ l = (\d+)$|^l = (\d+)$", rt.out, re.M)
        l = int([a or b for a, b in m][-1]) if m else 0
        if not l:
            raise vlib.InfraError("conformance check: no position\n%s" % rt.out[-2000:])
        line = cur[l - 1]
        k = run_id(cur, l)
        # the model's prediction is printed (ALIAS) with the state before the step
        dm = re.findall(r"/\\ diff = (<<.*?>>)\n\n", rt.out, re.S)
        drift.append({"run": {a: cur[k].get(a) for a in ("n", "rs", "byz", "lmode", "script")}, "step": l - k, "line": brief(line),
                      "model_vs_log": re.sub(r"\s+", " ", dm[-2] if len(dm) >= 2 else (dm[-1] if dm else ""))[:1500]})
        # drop that run, keep checking the others
        end = next((i for i in range(l, len(cur)) if cur[i]["op"] == "init"), len(cur))
        cur = cur[:k] + cur[end:]
        if not cur:
            break
    return {"conformance_model": "spec/HotStuff.tla (replica model) via spec/Trace_R.tla", "conformance_steps_checked": modelled_steps,
            "conformance_runs_checked": modelled_runs, "conformance_drift_runs": len(drift), "conformance_drift": drift[:3]}


KEYS = {
    "C01": lambda line, rows, l: "agreement:%s" % rows[run_id(rows, l)]["rs"],
    "C03": lambda line, rows, l: "vote:%s" % rows[run_id(rows, l)]["rs"],
    "C06": lambda line, rows, l: "exec:%s" % rows[run_id(rows, l)]["rs"],
    "C07": lambda line, rows, l: "pacemaker:%s" % rows[run_id(rows, l)]["rs"],
    "C05": lambda line, rows, l: "progress:%s" % rows[run_id(rows, l)]["rs"],
}
WHAT = {
    "C01": "honest replicas' committed sequences diverge or are not a hash-linked chain",
    "C03": "an honest replica signed a vote that breaks the vote discipline",
    "C06": "execution order / exactly-once / digest / outcome rule broken",
    "C07": "a replica's view or certified state moved backwards, without evidence, or without signalling",
    "C05": "a member of the synchronous quorum did not commit within the bound after the heal",
}


SCRIPTS = os.path.join(vlib.SPEC, "generated", "scripts.ndjson")


def play_scripts(d, seed, max_scripts):
    """Scripts that TLC generated from spec/HotStuffAbs.tla (behaviours of the correct model and Agreement-violating
    behaviours of models with one weakened rule) are played against real replicas by `hsverif attack`."""
    tr, st = os.path.join(d, "attack.ndjson"), os.path.join(d, "attack_status.ndjson")
    vlib.run_harness(["attack", "-scripts", SCRIPTS, "-out", tr, "-status", st, "-seed", seed, "-max", max_scripts], timeout=3000)
    rows, status = vlib.read_ndjson(tr), vlib.read_ndjson(st)
    summ = {}
    for s in status:
        e = summ.setdefault("%s/%s" % (s["rs"], s["weak"]), {})
        e[s["status"]] = e.get(s["status"], 0) + 1
    # what the correct model predicts: behaviours of the correct model and attacks on a weakened COMMIT rule consist of legal
    # votes only (every step is followed; the real commit rule then commits nothing conflicting); attacks on a weakened vote or
    # lock rule contain a vote the correct rules refuse
    def expected(s):
        return "completed" if s["kind"] == "follow" or s["weak"] in ("commit2", "nodirect", "gaplow", "gaphigh") else "refused"
    drift = [s for s in status if s["status"] != expected(s)]
    return rows, {"scripts_played": len(status), "script_outcomes": summ,
                  "script_conformance_drift": [{k: s[k] for k in ("job", "idx", "status", "at", "notes")} for s in drift[:10]],
                  "script_conformance_drift_count": len(drift)}


def run_property(prop, tier, seed, driver_args, rule, extra_cov=None, assumptions=None, scripts=0, more=(), models=False):
    """Common body of C01/C03/C05/C06/C07."""
    t0 = time.time()
    v = vlib.Verdict(prop)
    script_cov = {}
    mc = []
    with vlib.scratch(prop) as d:
        if models:
            mc = model_checks(d, tier, prop)
        tr = os.path.join(d, "trace.ndjson")
        died = None
        try:
            vlib.run_harness(["proto", "-out", tr, "-seed", seed] + driver_args, timeout=3000, partial_ok=True)
            rows = vlib.read_ndjson(tr)
        except vlib.HarnessDied as e:
            # the code under test took the driver down or hung it: what happened before is on disk and is judged; only if that
            # shows nothing wrong is this an infrastructure error
            died = str(e)
            rows = vlib.read_ndjson_partial(tr)
            while rows and rows[-1]["op"] != "end" and rows[-1]["op"] != "step":
                rows.pop()
            if not rows:
                raise vlib.InfraError(died)
        for i, extra in enumerate(more):
            # further batches of runs (e.g. one scenario of the library only), same seed
            tr2 = os.path.join(d, "trace_more%d.ndjson" % i)
            vlib.run_harness(["proto", "-out", tr2, "-seed", seed] + list(extra), timeout=3000)
            rows = rows + vlib.read_ndjson(tr2)
        if scripts:
            arows, script_cov = play_scripts(d, seed, scripts)
            rows = rows + arows
        allrows = rows
        cfg = "Trace_P_%s.cfg" % prop
        states = 0
        cmd = ""
        for _ in range(12):
            rt, l = judge(d, rows, cfg)
            states += rt.distinct
            cmd = rt.cmd
            if rt.status == "ok":
                break
            if rt.status != "violation" or not l:
                raise vlib.InfraError("trace check: %r\n%s" % (rt, rt.out[-2000:]))
            line = rows[l - 1]
            k = run_id(rows, l)
            key = KEYS[prop](line, rows, l)
            v.violation(key, "%s (run: n=%d %s byz=%s leaders=%s; step %d): %s" % (
                WHAT[prop], rows[k]["n"], rows[k]["rs"], rows[k]["byz"], rows[k]["lmode"], l - k, json.dumps(brief(line))[:900]),
                {"run": rows[k:l], "harness": ("hsverif attack -scripts spec/generated/scripts.ndjson -seed %d (script %s)" % (seed, json.dumps(rows[k]["script"])))
                 if "script" in rows[k] else "hsverif proto -seed %d %s" % (seed, " ".join(str(a) for a in driver_args))})
            # drop the runs with this key and keep judging the rest
            keep = []
            for rr in split_runs(rows):
                rkey = KEYS[prop](None, rr, 1)
                if rkey != key:
                    keep += rr
            rows = keep
            if not rows:
                break
        conf_cov = conformance(d, allrows)
        conf_cov["binding_selftest"] = binding_selftest(d, allrows, prop, cfg) if not v.violations else "skipped (violations reported)"
        # panics inside replicas discredit nothing here but are reported (they belong to C10)
        panics = sum(1 for x in allrows if x["op"] == "step" and x["panic"])
    if died and not v.violations:
        raise vlib.InfraError("driver died and the trace up to there shows no violation: " + died[:1500])
    rc = v.finish()
    rows = allrows
    runs = split_runs(rows)
    nsteps = sum(1 for x in rows if x["op"] == "step")
    commits = sum(len(x["commits"]) for x in rows if x["op"] == "step")
    votes = sum(1 for x in rows if x["op"] == "step" for s in x["signed"] if s[0] == "vote")
    byzacts = sum(1 for x in rows if x["op"] == "byz")
    incs = sum(x["post"]["view"] - x["pre"]["view"] for x in rows if x["op"] == "step")
    by_rs = {}
    for rr in runs:
        k = "%s/n=%d" % (rr[0]["rs"], rr[0]["n"])
        e = by_rs.setdefault(k, {"runs": 0, "commits": 0, "with_byz": 0})
        e["runs"] += 1
        e["commits"] += sum(len(x["commits"]) for x in rr if x["op"] == "step")
        e["with_byz"] += 1 if rr[0]["byz"] else 0
    sample = next((x for x in rows if x["op"] == "step" and x["commits"]), rows[1])
    cov = {
        "states": states, "transitions": states, "traces_validated_against_impl": len(runs),
        "samples": [rows[0], brief(sample)],
        "evaluations": nsteps, "distinct_nontrivial": len(runs),
        "rule": rule, "runs": len(runs), "steps": nsteps, "commit_events": commits, "votes_signed": votes, "byzantine_actions": byzacts,
        "view_increments": incs, "by_ruleset": by_rs, "replica_panics": panics, "checker_cmd": cmd,
    }
    cov.update(script_cov)
    cov.update(conf_cov)
    if mc:
        cov["model_checks"] = mc
        cov["states"] = states + sum(x["distinct"] for x in mc)
        cov["transitions"] = states + sum(x["generated"] for x in mc)
    if conf_cov["conformance_drift_runs"]:
        print("[%s] WARNING: %d run(s) deviate from the replica model spec/HotStuff.tla (conformance drift, not a verdict); first: %s" % (
            prop, conf_cov["conformance_drift_runs"], json.dumps(conf_cov["conformance_drift"][0])[:700]))
    if script_cov.get("script_conformance_drift_count"):
        print("[%s] WARNING: %d TLC-generated scripts were not followed as the model predicts (conformance drift, not a verdict)" % (
            prop, script_cov["script_conformance_drift_count"]))
    if extra_cov:
        cov.update(extra_cov(rows))
    vlib.write_evidence(prop, tier, seed, "model_checking", cov, time.time() - t0, violations=len(v.violations), assumptions=assumptions or [])
    return rc
