#!/usr/bin/env python3
"""Generate the script library for `hsverif attack` with TLC from spec/HotStuffAbs.tla.

  attack scripts : for every weakened variant of the rules TLC enumerates (exhaustively within the bounds of the
                   job) the behaviours that violate Agreement in the weakened model;
  follow scripts : sampled behaviours of the correct model.

Output: spec/generated/scripts.ndjson (committed; the model does not depend on /repo, the thorough tier of C01
regenerates a part of it and compares).  Usage: gen_attacks.py [--jobs name,...] [--out file] [--par 3]
"""
import json, os, random, re, shutil, subprocess, sys, tempfile, concurrent.futures as cf

ROOT = os.path.dirname(os.path.dirname(os.path.abspath(__file__)))
SPEC = os.path.join(ROOT, "spec")
JAR = "/opt/veriftools/tla/tla2tools.jar:/opt/veriftools/tla/CommunityModules-deps.jar"

# name: (ruleset, weak, prefix, maxview, equivviews, kind, dumpEvery)
JOBS = {}
def job(rs, weak, prefix, maxview, equiv="{}", dump=0, group=False):
    JOBS[f"{rs}-{weak}-p{prefix}-v{maxview}" + ("-eq" if equiv != "{}" else "") + ("-g" if group else "")] = (rs, weak, prefix, maxview, equiv, dump, group)
for rs in ("chained", "simple"):
    job(rs, "nolock", 3, 6)          # (shorter prefixes leave no room for two conflicting three-chains: no script)
    job(rs, "regress", 4, 8)
    job(rs, "regress", 3, 7)
    job(rs, "commit2", 2, 5)
    job(rs, "commit2", 3, 6)
    job(rs, "nodirect", 2, 6)
    job(rs, "nodirect", 3, 7)
    # longer attacks, searched with group votes only (a block gets a certifying set of votes at once or none)
    job(rs, "gaplow", 2, 7, group=True)
    job(rs, "gaplow", 2, 8, group=True)
    job(rs, "regress", 2, 8, group=True)
    job(rs, "nolock", 0, 6, group=True)
    job(rs, "revote", 0, 3, "{1, 2, 3}", group=True)      # a replica may vote twice in a view: equivocation in three views in a row
    job(rs, "revote", 2, 5, "{3, 4, 5}", group=True)
    # ("gaplow": only the link between the committed block and its child may skip views -- no Agreement violation exists within
    #  four adversarial views after the prefix (1.9 M states explored); the known attack needs seven)
    job(rs, "gaphigh", 2, 6)
    job(rs, "gaphigh", 3, 7)
    # (a model in which a replica may vote twice in a view needs equivocation in three consecutive views before Agreement
    #  breaks: too large to exhaust; double votes are judged directly by P_C03 on the random adversary's equivocations)
    job(rs, "none", 0, 4, "{2}", 40)
    job(rs, "none", 3, 6, "{4}", 40)

def run_job(name, timeout=1500, workers=5):
    rs, weak, prefix, maxview, equiv, dump, group = JOBS[name]
    d = tempfile.mkdtemp(prefix="atk-", dir=os.path.join(ROOT, ".scratch") if os.path.isdir(os.path.join(ROOT, ".scratch")) else None)
    try:
        shutil.copy(os.path.join(SPEC, "HotStuffAbs.tla"), d)
        spec, inv = ("SpecOrdered", "DumpSample") if weak == "none" else ("SpecAttack", "ExploreWhileSafe")
        with open(os.path.join(d, "job.cfg"), "w") as f:
            f.write(f'CONSTANTS N = 4  Byz = {{4}}  MaxView = {maxview}  MaxBlocksPerView = 2  Ruleset = "{rs}"  Weak = "{weak}"'
                    f'  Prefix = {prefix}  EquivViews = {equiv}  DumpEvery = {dump}  GroupVotes = {"TRUE" if group else "FALSE"}\nSPECIFICATION {spec}\nINVARIANT {inv}\n'
                    + ("INVARIANT Agreement\nINVARIANT OneVotePerView\n" if weak == "none" else "") + "VIEW view\n")
        p = subprocess.run(["timeout", str(timeout), "java", "-XX:+UseParallelGC", "-cp", JAR, "tlc2.TLC", "-workers", str(workers), "-deadlock",
                            "-metadir", os.path.join(d, "meta"), "-config", "job.cfg", "HotStuffAbs.tla"], cwd=d, capture_output=True, text=True)
        out = p.stdout
        scripts = []
        for m in re.finditer(r'^<<"SCRIPT", "(.*)">>$', out, re.M):
            scripts.append(json.loads(m.group(1).replace('\\"', '"')))
        st = re.search(r"(\d+) states generated, (\d+) distinct states found, 0 states left", out)
        done = "Model checking completed" in out and st is not None
        err = None
        if not done:
            err = "timeout" if p.returncode == 124 else (re.search(r"Error: .*", out) or [None])[0] if re.search(r"Error: .*", out) else f"rc={p.returncode}"
        return name, scripts, (int(st.group(1)), int(st.group(2))) if st else None, err
    finally:
        shutil.rmtree(d, ignore_errors=True)

def main():
    args = sys.argv[1:]
    names = list(JOBS)
    out = os.path.join(SPEC, "generated", "scripts.ndjson")
    par, cap = 3, 60
    while args:
        a = args.pop(0)
        if a == "--jobs": names = args.pop(0).split(",")
        elif a == "--out": out = args.pop(0)
        elif a == "--par": par = int(args.pop(0))
        elif a == "--cap": cap = int(args.pop(0))
        elif a == "--list": print("\n".join(names)); return
        elif a == "--merge": pass
    rows, summary = [], {}
    merge = "--merge" in sys.argv
    if merge and os.path.exists(out):
        rows = [json.loads(l) for l in open(out) if l.strip()]
        rows = [r for r in rows if r["job"] not in names]
        try:
            summary = json.load(open(out.replace(".ndjson", ".summary.json")))
        except Exception:
            summary = {}
    with cf.ThreadPoolExecutor(par) as ex:
        for name, scripts, st, err in ex.map(run_job, names):
            rnd = random.Random(name)
            scripts.sort(key=lambda s: json.dumps(s["ops"]))
            total = len(scripts)
            if len(scripts) > cap:
                scripts = rnd.sample(scripts, cap)
            for i, s in enumerate(scripts):
                s["job"], s["idx"] = name, i
                rows.append(s)
            summary[name] = {"scripts_found": total, "kept": len(scripts), "states": st, "error": err}
            print(name, summary[name], flush=True)
    with open(out, "w") as f:
        for r in rows:
            f.write(json.dumps(r, separators=(",", ":")) + "\n")
    with open(out.replace(".ndjson", ".summary.json"), "w") as f:
        json.dump(summary, f, indent=1)
    bad = [n for n, s in summary.items() if s["error"] or (JOBS[n][1] != "none" and s["scripts_found"] == 0)]
    if bad:
        print("jobs without result:", bad)
    return 0

if __name__ == "__main__":
    sys.exit(main())
