"""Common machinery for the /verif checks: building the Go harness from /repo's working tree
through a build overlay, running TLC, writing evidence, matching known findings.

Exit-code policy (DESIGN.md section 3): 0 = property held on everything explored,
1 = VIOLATION line printed (real-code behaviour only), 2 = infrastructure failure."""
import contextlib
import hashlib
import json
import os
import re
import shutil
import subprocess
import sys
import time

VERIF = os.path.dirname(os.path.dirname(os.path.abspath(__file__)))
REPO = os.environ.get("VERIF_REPO", "/repo")
OVERLAY_SRC = os.path.join(VERIF, "harness", "overlay")
BUILD = os.path.join(VERIF, ".build")
SCRATCH = os.path.join(VERIF, ".scratch")
SPEC = os.path.join(VERIF, "spec")
EVIDENCE = os.environ.get("VERIF_EVIDENCE_DIR", os.path.join(VERIF, "evidence"))   # (seeded trial runs write elsewhere)
REPLAYS = os.environ.get("VERIF_REPLAYS_DIR", os.path.join(VERIF, "replays"))
TLA_CP = "/opt/veriftools/tla/tla2tools.jar:/opt/veriftools/tla/CommunityModules-deps.jar"


class InfraError(Exception):
    """Something other than the property failed (build, TLC crash, timeout...). Exit 2."""


def log(*a):
    print(*a, file=sys.stderr, flush=True)


def go_env():
    env = dict(os.environ)
    env["GOFLAGS"] = "-mod=mod"
    env["GOPROXY"] = "off"
    env.pop("GOSUMDB", None)          # GOSUMDB=off breaks toolchain selection here
    env["GOTOOLCHAIN"] = "auto"
    env.setdefault("GOCACHE", os.path.join(os.path.expanduser("~"), ".cache", "go-build"))
    return env


def write_overlay():
    os.makedirs(BUILD, exist_ok=True)
    rep = {}
    for d, _, fs in os.walk(OVERLAY_SRC):
        for f in fs:
            p = os.path.join(d, f)
            rep[os.path.join(REPO, os.path.relpath(p, OVERLAY_SRC))] = p
    path = os.path.join(BUILD, "overlay.%d.json" % os.getpid())
    with open(path, "w") as fh:
        json.dump({"Replace": rep}, fh, indent=1)
    return path


_built = {}


def build_harness(race=False):
    """Builds the harness binary from /repo's current working tree (+overlay, tag verif)."""
    key = "race" if race else "plain"
    if key in _built:
        return _built[key]
    ov = write_overlay()
    out = os.path.join(BUILD, "hsverif-%s.%d" % (key, os.getpid()))
    cmd = ["go", "build", "-tags", "verif", "-overlay", ov, "-o", out]
    if race:
        cmd.append("-race")
    cmd.append("./internal/verif/cmd/hsverif")
    t0 = time.time()
    p = subprocess.run(cmd, cwd=REPO, env=go_env(), capture_output=True, text=True)
    try:
        os.unlink(ov)
    except OSError:
        pass
    if p.returncode != 0:
        raise InfraError("harness build failed:\n" + p.stdout + p.stderr)
    log("[build] %s harness in %.1fs" % (key, time.time() - t0))
    _built[key] = out
    return out


def cleanup_build():
    for p in _built.values():
        with contextlib.suppress(OSError):
            os.unlink(p)
    _built.clear()


class HarnessDied(Exception):
    """The driver process did not finish (crash of the code under test that cannot be recovered, or a hang): the trace
    written so far is still on disk (every line is flushed)."""


def run_harness(args, timeout=600, race=False, env_extra=None, check=True, stdin=None, partial_ok=False):
    binp = build_harness(race)
    env = dict(os.environ)
    if env_extra:
        env.update(env_extra)
    try:
        p = subprocess.run([binp] + [str(a) for a in args], capture_output=True, text=True,
                           timeout=timeout, env=env, input=stdin)
    except subprocess.TimeoutExpired:
        if partial_ok:
            raise HarnessDied("harness timed out after %ds: %s" % (timeout, args))
        raise InfraError("harness timed out: %s" % (args,))
    if check and p.returncode != 0 and partial_ok:
        raise HarnessDied("harness %s died (rc=%d): %s" % (args, p.returncode, p.stderr[:1500]))
    if check and p.returncode != 0:
        raise InfraError("harness %s failed (rc=%d):\n%s\n%s" % (args, p.returncode, p.stdout[-4000:], p.stderr[-8000:]))
    return p


@contextlib.contextmanager
def scratch(tag):
    d = os.path.join(SCRATCH, "%s-%d" % (tag, os.getpid()))
    shutil.rmtree(d, ignore_errors=True)
    os.makedirs(d)
    # every spec module is visible next to the trace files
    for f in os.listdir(SPEC):
        if f.endswith((".tla", ".cfg")):
            shutil.copy(os.path.join(SPEC, f), os.path.join(d, f))
    try:
        yield d
    finally:
        if not os.environ.get("VERIF_KEEP"):
            shutil.rmtree(d, ignore_errors=True)


_RE_STATES = re.compile(r"(\d+) states generated, (\d+) distinct states found, (\d+) states left on queue")
_RE_SIM = re.compile(r"(\d+) states checked")
_RE_INV = re.compile(r"Error: Invariant (\S+) is violated")
_RE_ACT = re.compile(r"Error: Action property (\S+) is violated")
_RE_DEPTH = re.compile(r"The depth of the complete state graph search is (\d+)")


class TLCResult:
    def __init__(self):
        self.status = "error"       # ok | violation | error
        self.generated = 0
        self.distinct = 0
        self.depth = 0
        self.violated = None        # name of the invariant / property
        self.out = ""
        self.wall = 0.0
        self.last_state = {}        # var -> text of the last state of a counterexample
        self.cmd = ""

    def __repr__(self):
        return "<TLC %s gen=%d distinct=%d violated=%s %.1fs>" % (
            self.status, self.generated, self.distinct, self.violated, self.wall)


def parse_states(out):
    """Parses counterexample states 'State N: ...' into a list of dicts var->text."""
    states = []
    cur = None
    var = None
    for line in out.splitlines():
        if re.match(r"^State \d+:", line) or "violated by the initial state" in line:
            cur = {}
            states.append(cur)
            var = None
            continue
        if cur is None:
            continue
        m = re.match(r"^(?:/\\ )?(\w+) = (.*)$", line)
        if m:
            var = m.group(1)
            cur[var] = m.group(2)
        elif line.strip() == "" :
            var = None
        elif var is not None and not line.startswith("Error") and not re.match(r"^\d+ states", line):
            cur[var] += "\n" + line
    return states


def tlc(module, cfg=None, cwd=None, workers="auto", timeout=600, simulate=None, depth=None,
        seed=None, heap=None, deque=False, coverage=False, extra=None, deadlock=False,
        stack="64m", dump=None):
    """Runs TLC on module (in cwd) and returns a TLCResult. Never raises on a property
    violation; raises InfraError on crash/timeout/parse problems."""
    cfg = cfg or module + ".cfg"
    meta = os.path.join(cwd, "meta-%s-%d" % (module, int(time.time() * 1000) % 100000000))
    jtmp = os.path.join(cwd, "jtmp")
    os.makedirs(jtmp, exist_ok=True)
    java = ["java", "-XX:+UseParallelGC", "-Xss" + stack, "-Djava.io.tmpdir=" + jtmp]     # (TLC unpacks its modules into the temp dir)
    if heap:
        java.append("-Xmx" + heap)
    if deque:
        java.append("-Dtlc2.tool.queue.IStateQueue=StateDeque")
    java += ["-cp", TLA_CP, "tlc2.TLC"]
    args = ["-metadir", meta, "-config", cfg, "-workers", str(workers), "-noGenerateSpecTE"]
    if not deadlock:
        args.append("-deadlock")     # -deadlock DISABLES deadlock checking
    if simulate is not None:
        args += ["-simulate", simulate]
    if depth is not None:
        args += ["-depth", str(depth)]
    if seed is not None:
        args += ["-seed", str(seed)]
    if coverage:
        args += ["-coverage", "1"]
    if dump:
        args += ["-dump", "dot,actionlabels", dump]
    if extra:
        args += extra
    args.append(module + ".tla")
    r = TLCResult()
    r.cmd = "tlc " + " ".join(args)
    t0 = time.time()
    try:
        p = subprocess.run(java + args, cwd=cwd, capture_output=True, text=True, timeout=timeout)
    except subprocess.TimeoutExpired as e:
        r.out = (e.stdout or b"").decode("utf8", "replace") if isinstance(e.stdout, bytes) else (e.stdout or "")
        r.wall = time.time() - t0
        subprocess.run(["pkill", "-f", meta], capture_output=True)
        shutil.rmtree(meta, ignore_errors=True)
        if simulate is not None:
            # simulation under an outer timeout is the intended way to bound it
            r.status = "ok" if "Error:" not in r.out else "error"
            m = _RE_SIM.findall(r.out)
            if m:
                r.generated = int(m[-1])
            return r
        raise InfraError("TLC timed out after %ds: %s" % (timeout, r.cmd))
    r.wall = time.time() - t0
    r.out = p.stdout + p.stderr
    shutil.rmtree(meta, ignore_errors=True)
    m = _RE_STATES.findall(r.out)
    if m:
        r.generated, r.distinct = int(m[-1][0]), int(m[-1][1])
    m = _RE_SIM.findall(r.out)
    if m and not r.generated:
        r.generated = int(m[-1])
    m = _RE_DEPTH.search(r.out)
    if m:
        r.depth = int(m.group(1))
    mi = _RE_INV.search(r.out) or _RE_ACT.search(r.out)
    if mi:
        r.status = "violation"
        r.violated = mi.group(1)
        st = parse_states(r.out)
        if st:
            r.last_state = st[-1]
            r.states = st
        return r
    if "Temporal properties were violated" in r.out:
        r.status = "violation"
        r.violated = "temporal"
        return r
    if "Error: Deadlock reached" in r.out:
        r.status = "violation"
        r.violated = "Deadlock"
        st = parse_states(r.out)
        if st:
            r.last_state = st[-1]
        return r
    if "Postcondition" in r.out and "violated" in r.out or "POSTCONDITION" in r.out and "violated" in r.out:
        r.status = "violation"
        r.violated = "Postcondition"
        return r
    if p.returncode == 0 and ("Model checking completed. No error has been found" in r.out
                              or "Finished in" in r.out and "Error" not in r.out):
        r.status = "ok"
        return r
    raise InfraError("TLC failed (rc=%d): %s\n%s" % (p.returncode, r.cmd, '\n'.join(x for x in r.out.splitlines() if not x.startswith(('Parsing file','Semantic processing','Linting')))[-1200:]))


def write_ndjson(path, rows):
    with open(path, "w") as fh:
        for r in rows:
            fh.write(json.dumps(r, separators=(",", ":")) + "\n")


def read_ndjson_partial(path):
    """Reads a trace whose writer may have died: a truncated last line is dropped."""
    rows = []
    with open(path) as fh:
        for line in fh:
            line = line.strip()
            if not line:
                continue
            try:
                rows.append(json.loads(line))
            except ValueError:
                break
    return rows


def read_ndjson(path):
    rows = []
    with open(path) as fh:
        for line in fh:
            line = line.strip()
            if line:
                rows.append(json.loads(line))
    return rows


def tla_str_set(xs):
    return "{" + ", ".join('"%s"' % x for x in xs) + "}"


# ---------------------------------------------------------------------------------------------
# known findings

def load_findings():
    p = os.path.join(VERIF, "known_findings.json")
    if not os.path.exists(p):
        return []
    with open(p) as fh:
        return json.load(fh).get("findings", [])


def match_finding(prop, key):
    """Returns the 'known' entry whose key equals key (exact string match), else None.
    'fixed' entries suppress nothing."""
    for f in load_findings():
        if f.get("property") == prop and f.get("status") == "known" and f.get("key") == key:
            return f
    return None


class Verdict:
    """Collects violations of one check run and prints the interface lines."""

    def __init__(self, prop):
        self.prop = prop
        self.violations = []      # (key, description, replay payload)
        self.known = []           # (finding, description)
        self.warnings = []

    def violation(self, key, what, payload):
        f = match_finding(self.prop, key)
        if f is not None:
            if not any(k[0]["key"] == key for k in self.known):
                self.known.append((f, what))
            return False
        if any(v[0] == key for v in self.violations):
            return True
        self.violations.append((key, what, payload))
        return True

    def warn(self, msg):
        self.warnings.append(msg)
        log("[warn] " + msg)

    def finish(self):
        for f, what in self.known:
            print("KNOWN-FINDING: property=%s %s" % (self.prop, f.get("what", what)))
        for key, what, payload in self.violations:
            os.makedirs(REPLAYS, exist_ok=True)
            h = hashlib.sha1((self.prop + key).encode()).hexdigest()[:10]
            path = os.path.join(REPLAYS, "%s-%s.json" % (self.prop, h))
            with open(path, "w") as fh:
                json.dump({"property": self.prop, "key": key, "what": what, "replay": payload}, fh, indent=1, default=str)
            log("[violation] %s: %s" % (key, what))
            print("VIOLATION property=%s replay=%s" % (self.prop, path))
        sys.stdout.flush()
        return 1 if self.violations else 0


def write_evidence(prop, tier, seed, level, coverage, wall, violations=0, assumptions=None):
    os.makedirs(EVIDENCE, exist_ok=True)
    ev = {
        "property_id": prop,
        "tier": tier,
        "seed": int(seed),
        "level": level,
        "coverage": coverage,
        "assumptions": assumptions or [],
        "wall_s": round(wall, 2),
        "violations": int(violations),
    }
    p = os.path.join(EVIDENCE, prop + ".json")
    tmp = p + ".tmp%d" % os.getpid()
    with open(tmp, "w") as fh:
        json.dump(ev, fh, indent=1, default=str)
    os.replace(tmp, p)
    if tier == "thorough" and "VERIF_EVIDENCE_DIR" not in os.environ and REPO == "/repo":
        # the last thorough run of every property is also kept in one file of its own (evidence/<id>.json always describes the
        # most recent run, which for a committed tree is the quick tier)
        q = os.path.join(VERIF, "thorough_runs.json")
        import fcntl
        with open(q + ".lock", "w") as lk:      # several thorough checks may finish at the same time
            fcntl.flock(lk, fcntl.LOCK_EX)
            try:
                allt = json.load(open(q))
            except Exception:
                allt = {}
            cov = {k: v for k, v in coverage.items() if k not in ("samples", "conformance_drift", "script_conformance_drift")}
            try:
                head = subprocess.run(["git", "-C", REPO, "log", "--format=%h", "-1"], capture_output=True, text=True).stdout.strip()
            except Exception:
                head = ""
            allt[prop] = {"seed": int(seed), "wall_s": round(wall, 1), "violations": int(violations), "repo_head": head, "coverage": cov}
            with open(q + ".tmp", "w") as fh:
                json.dump(allt, fh, indent=1, default=str)
            os.replace(q + ".tmp", q)
    return p


def trace_check(module, cwd, trace_rows, trace_name="trace.ndjson", cfg=None, timeout=900, workers=1,
                deque=False, heap=None):
    """Writes trace_rows to cwd/trace_name and runs the trace spec `module`. Returns TLCResult."""
    write_ndjson(os.path.join(cwd, trace_name), trace_rows)
    return tlc(module, cfg=cfg, cwd=cwd, workers=workers, timeout=timeout, deque=deque, heap=heap)


def last_l(res):
    """Line index `l` of the last state of a counterexample (trace specs carry VARIABLE l)."""
    try:
        return int(res.last_state.get("l", "0").strip())
    except ValueError:
        return 0
