#!/usr/bin/env python3
"""setup_cmd: builds the harness once (warms the Go build cache) and checks the TLA+ tools."""
import os
import subprocess
import sys

sys.path.insert(0, os.path.dirname(os.path.abspath(__file__)))
import vlib


def main():
    try:
        vlib.build_harness(False)
        vlib.build_harness(True)
    except vlib.InfraError as e:
        print(e, file=sys.stderr)
        return 2
    finally:
        vlib.cleanup_build()
    p = subprocess.run(["java", "-cp", vlib.TLA_CP, "tlc2.TLC", "-h"], capture_output=True, text=True)
    if "TLC" not in p.stdout + p.stderr:
        print("tlc not available", file=sys.stderr)
        return 2
    print("setup ok")
    return 0


if __name__ == "__main__":
    sys.exit(main())
