#!/bin/bash
# seed_round.sh <suffix> <wtprefix> <ids...>  e.g. seed_round.sh d /tmp/wt4- c02 c03  -> confirms C02-d from /tmp/wt4-c02 and tries it
SUF=$1; PRE=$2; shift 2
for c in "$@"; do
  P=$(echo $c | tr a-z A-Z); ID=$P-$SUF
  R=$(/verif/lib/confirm_seed.sh $ID $PRE$c 2>&1 | tail -3 | tr '\n' ' ')
  git -C /repo worktree remove --force $PRE$c 2>/dev/null
  T=$(/verif/lib/try_seed.sh $ID $P 2>&1 | grep -E "^seed=" | head -1)
  echo "$ID | $R | $T"
done
