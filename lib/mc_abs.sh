#!/bin/bash
# model checks of the abstract protocol model (run in the background: vp run -- lib/mc_abs.sh)
cd "$(dirname "$0")/../spec"
for c in HotStuffAbs_neg HotStuffAbs HotStuffAbs_simple; do
  echo "== $c"
  timeout ${MC_TIMEOUT:-1500} java -XX:+UseParallelGC -cp /opt/veriftools/tla/tla2tools.jar:/opt/veriftools/tla/CommunityModules-deps.jar tlc2.TLC \
     -workers ${MC_WORKERS:-12} -deadlock -metadir /tmp/abs-$c-$$ -config $c.cfg HotStuffAbs.tla 2>&1 | grep -E "Error|states generated|violated|Finished|Invariant" | tail -5
  rm -rf /tmp/abs-$c-$$
done
