"""C02 -- accepted certificates carry a quorum of distinct valid signatures."""
import os
import time

import vlib

PROP = "C02"


def finding_key(line):
    return "cert:%s:%s" % (line["kind"], line["mut"])


def judge(d, rows, v, seed):
    """Runs the trace spec repeatedly, recording one violation per (kind, mutation) key and
    removing the offending lines so that the rest of the trace is judged as well."""
    drift = []
    total_states = 0
    cmd = ""
    rows = list(rows)
    for _ in range(60):
        vlib.write_ndjson(os.path.join(d, "trace.ndjson"), rows)
        rt = vlib.tlc("Trace_C02", cfg="Trace_C02_A.cfg", cwd=d, workers=1, timeout=3000, heap="12g")
        cmd = rt.cmd
        total_states += rt.distinct
        if rt.status == "ok":
            if rt.distinct != len(rows) + 1:
                raise vlib.InfraError("trace not fully consumed")
            break
        if rt.status != "violation":
            raise vlib.InfraError("trace check: %r" % rt)
        l = vlib.last_l(rt)
        line = rows[l - 1]
        key = finding_key(line)
        what = ("%s verification %s a certificate of shape '%s' (scheme %s, n=%d, cache %s): %s" % (
            line["kind"].upper(), "ACCEPTS" if line["ok"] else "rejects honestly assembled", line["mut"], line["scheme"], line["n"],
            "on" if line["cache"] else "off", str(line.get(line["kind"]))[:300]))
        v.violation(key, what, {"line": line, "harness": "hsverif c02 -seed %d" % seed})
        rows = [r for r in rows if finding_key(r) != key]
    else:
        raise vlib.InfraError("too many distinct violations")
    # Pass B on the full trace: conformance to the implementation-shaped model
    vlib.write_ndjson(os.path.join(d, "trace.ndjson"), rows)
    rb = vlib.tlc("Trace_C02", cwd=d, workers=1, timeout=3000, heap="12g")
    if rb.status == "violation":
        l = vlib.last_l(rb)
        drift.append((l, rows[l - 1]["kind"], rows[l - 1]["mut"], rows[l - 1]["ok"]))
        v.warn("conformance drift (model vs code) at %s" % (drift[-1],))
    return total_states, cmd, drift


def run(tier, seed):
    t0 = time.time()
    v = vlib.Verdict(PROP)
    with vlib.scratch(PROP) as d:
        r = vlib.tlc("MC_Cert", cwd=d, workers=8, timeout=600)
        if r.status != "ok":
            raise vlib.InfraError("MC_Cert: %r\n%s" % (r, r.out[-1500:]))
        rn = vlib.tlc("MC_Cert", cfg="MC_Cert_neg.cfg", cwd=d, workers=8, timeout=600)
        if rn.status != "violation":
            raise vlib.InfraError("MC_Cert negative control not refuted")
        tr = os.path.join(d, "trace.ndjson")
        args = ["c02", "-out", tr, "-seed", seed]
        if tier == "quick":
            args += ["-ns", "1,2,4,7", "-reps", 1]
        else:
            args += ["-ns", "1,2,3,4,5,6,7,8,9,10,11,12,13", "-reps", 3]
        vlib.run_harness(args, timeout=3000)
        rows = vlib.read_ndjson(tr)
        states, cmd, drift = judge(d, rows, v, seed)
    rc = v.finish()
    kinds = {}
    accepted = 0
    for x in rows:
        k = x["kind"] + ":" + x["mut"]
        kinds[k] = kinds.get(k, 0) + 1
        accepted += 1 if x["ok"] else 0
    distinct = len({(x["kind"], x["scheme"], x["n"], x["cache"], x["mut"], str(x.get(x["kind"]))) for x in rows})
    vlib.write_evidence(PROP, tier, seed, "model_checking", {
        "states": r.distinct + states, "transitions": r.generated + states,
        "traces_validated_against_impl": len(rows),
        "samples": [next(x for x in rows if x["kind"] == k and x["mut"] == m) for k, m in (("qc", "honest-created"), ("qc", "dup-all"), ("tc", "foreign-one"), ("agg", "honest-created"))],
        "evaluations": len(rows), "distinct_nontrivial": distinct,
        "rule": "crafted certificates (QC, TC, AggQC) instantiated with real keys/signatures and verified by the real cert.Authority of two replicas (cache off / "
                "cache capacity 5): honest assemblies via Create*, every structural mutation family of DESIGN 6/C02 and random structures, per scheme and n; "
                "distinct = distinct (kind, scheme, n, cache, abstract certificate)",
        "accepted": accepted, "rejected": len(rows) - accepted, "shapes": len(kinds),
        "conformance": "ok" if not drift else "drift: %s" % drift[:3],
        "model": {"module": "MC_Cert", "states": r.distinct, "negative_control_refuted": True},
        "checker_cmd": cmd,
    }, time.time() - t0, violations=len(v.violations),
        assumptions=["one real ECDSA/Ed25519/BLS signature check is ground truth", "BLS aggregates have no algebraic cancellation beyond the atoms added by the harness"])
    return rc


def replay(path, seed):
    return run("quick", seed)
