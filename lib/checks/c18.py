"""C18 -- the Twins tester enumerates what it announces and reports divergence faithfully."""
import os
import time

import vlib

PROP = "C18"


def key_of(line):
    return "twins:" + line["kind"]


def run(tier, seed):
    t0 = time.time()
    v = vlib.Verdict(PROP)
    with vlib.scratch(PROP) as d:
        r = vlib.tlc("MC_Twins", cwd=d, workers=8, timeout=600)
        if r.status != "ok":
            raise vlib.InfraError("MC_Twins: %r\n%s" % (r, r.out[-1500:]))
        tr = os.path.join(d, "trace.ndjson")
        args = ["c18", "-out", tr, "-seed", seed]
        args += ["-limit", 700, "-verdicts", 3000] if tier == "quick" else ["-limit", 8000, "-verdicts", 15000, "-all3"]
        vlib.run_harness(args, timeout=3000)
        rows = vlib.read_ndjson(tr)
        allrows = rows
        drift = None
        states = 0
        cmd = ""
        for _ in range(6):
            vlib.write_ndjson(tr, rows)
            rt = vlib.tlc("Trace_C18", cfg="Trace_C18_A.cfg", cwd=d, workers=1, timeout=3000, heap="16g")
            states += rt.distinct
            cmd = rt.cmd
            if rt.status == "ok":
                break
            if rt.status != "violation":
                raise vlib.InfraError("trace check: %r" % rt)
            l = vlib.last_l(rt)
            line = rows[l - 1]
            brief = {k: line[k] for k in line if k not in ("yielded", "yielded2", "unshuffled", "table", "before", "after", "lp")}
            if line["kind"] in ("gen", "shuffle"):
                brief["yielded_len"] = len(line["yielded"])
            v.violation(key_of(line), "Twins %s case violates C18: %s" % (line["kind"], brief), {"case": brief, "harness": "hsverif c18 -seed %d" % seed})
            rows = [x for x in rows if x["kind"] != line["kind"]]
        vlib.write_ndjson(tr, rows)
        rb = vlib.tlc("Trace_C18", cwd=d, workers=1, timeout=3000, heap="16g")
        if rb.status == "violation":
            drift = vlib.last_l(rb)
            v.warn("conformance drift (odometer model) at line %d" % drift)
    rc = v.finish()
    rows = allrows
    kinds = {}
    for x in rows:
        kinds[x["kind"]] = kinds.get(x["kind"], 0) + 1
    gens = [x for x in rows if x["kind"] == "gen"]
    vlib.write_evidence(PROP, tier, seed, "model_checking", {
        "states": r.distinct + states, "transitions": r.generated + states,
        "traces_validated_against_impl": len(rows),
        "samples": [{k: gens[10][k] for k in ("n", "t", "k", "v", "announced", "drained")} | {"first_scenario": gens[10]["yielded"][:1], "table_head": gens[10]["table"][:2]},
                    next(x for x in rows if x["kind"] == "verdict" and not x["safe"])],
        "evaluations": len(rows), "distinct_nontrivial": len(gens) + kinds.get("verdict", 0),
        "rule": "every generator setting with n<=5, twins<=2, partitions<=3, views<=4: scenarios drained completely when announced <= limit (else a prefix), "
                "second instance for determinism, 1-view instance for the odometer model, shuffles with equal seeds, JSON round trips; verdicts: all commit-log pairs "
                "(length<=3, 3 block ids), %s, and seeded sets of up to 4 replicas with a twin pair" % ("all triples" if tier != "quick" else "sampled triples"),
        "by_kind": kinds, "settings_fully_drained": sum(1 for g in gens if g["drained"]), "settings": len(gens),
        "scenarios_examined": sum(len(g["yielded"]) for g in gens),
        "conformance": "ok" if not drift else "drift at line %d" % drift,
        "model": {"module": "MC_Twins", "states": r.distinct},
        "checker_cmd": cmd,
    }, time.time() - t0, violations=len(v.violations),
        assumptions=["'length of the agreed prefix' = number of leading positions on which all ordinary replicas that have an entry agree"])
    return rc


def replay(path, seed):
    return run("quick", seed)
