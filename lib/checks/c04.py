"""C04 -- vote, lock and commit decisions equal the published protocol rules."""
import os
import time

import vlib

PROP = "C04"


def first_diff(line):
    return None


def run(tier, seed):
    t0 = time.time()
    v = vlib.Verdict(PROP)
    with vlib.scratch(PROP) as d:
        r = vlib.tlc("MC_Rules", cwd=d, workers=8, timeout=900)
        if r.status != "ok":
            raise vlib.InfraError("MC_Rules: %r\n%s" % (r, r.out[-1500:]))
        rn = vlib.tlc("MC_Rules", cfg="MC_Rules_neg.cfg", cwd=d, workers=8, timeout=900)
        if rn.status != "violation":
            raise vlib.InfraError("MC_Rules negative control (old SimpleHotStuff commit rule) not refuted")
        tr = os.path.join(d, "trace.ndjson")
        args = ["c04", "-out", tr, "-seed", seed]
        args += ["-k", 3, "-rand", 400] if tier == "quick" else ["-k", 4, "-rand", 20000]
        vlib.run_harness(args, timeout=3000)
        rows = vlib.read_ndjson(tr)
        allrows = rows
        states = 0
        cmd = ""
        drift = None
        # thorough traces are large: judge in chunks
        chunk = 60000
        for off in range(0, len(rows), chunk):
            part = rows[off:off + chunk]
            for _ in range(5):
                vlib.write_ndjson(tr, part)
                rt = vlib.tlc("Trace_C04", cfg="Trace_C04_A.cfg", cwd=d, workers=1, timeout=3000, heap="16g")
                states += rt.distinct
                cmd = rt.cmd
                if rt.status == "ok":
                    break
                if rt.status != "violation":
                    raise vlib.InfraError("trace check: %r" % rt)
                l = vlib.last_l(rt)
                line = part[l - 1]
                v.violation("rules:" + line["rs"], "ruleset %s decides differently from the published rules on forest %s presented in order %s: decisions %s" % (
                    line["rs"], line["blocks"], line["order"], line["steps"]), {"case": line, "harness": "hsverif c04 -seed %d" % seed})
                part = [x for x in part if x["rs"] != line["rs"]]
            if not v.violations:
                vlib.write_ndjson(tr, part)
                rb = vlib.tlc("Trace_C04", cwd=d, workers=1, timeout=3000, heap="16g")
                if rb.status == "violation" and drift is None:
                    drift = off + vlib.last_l(rb)
                    v.warn("conformance drift at line %d" % drift)
    rc = v.finish()
    rows = allrows
    by = {}
    commits = votes_no = locks = 0
    for x in rows:
        by[x["rs"]] = by.get(x["rs"], 0) + 1
        for s in x["steps"]:
            commits += 1 if s["commit"] > 0 else 0
            votes_no += 0 if s["vote"] else 1
            locks += 1 if s["lock"] > 0 else 0
    vlib.write_evidence(PROP, tier, seed, "model_checking", {
        "states": r.distinct + states, "transitions": r.generated + states,
        "traces_validated_against_impl": len(rows),
        "samples": [rows[5], next(x for x in rows if any(s["commit"] > 0 for s in x["steps"]))],
        "evaluations": len(rows), "distinct_nontrivial": len({(x["rs"], str(x["blocks"]), str(x["order"]), str(x["agg"])) for x in rows}),
        "rule": "every forest of %d blocks (parent any earlier block, view +1/+2, QC pointer any earlier block or a missing block) x every presentation order x three rulesets "
                "(fast: plain and aggregate-QC proposals), plus seeded random forests of 4..12 blocks with forks, gaps, foreign QC pointers, shuffled orders and omitted "
                "blocks; real ruleset objects over a real Blockchain with fetch off" % (3 if tier == "quick" else 4),
        "by_ruleset": by, "steps_with_commit": commits, "steps_with_vote_refused": votes_no, "steps_with_nongenesis_lock": locks,
        "conformance": "ok" if not drift else "drift at line %d" % drift,
        "model": {"module": "MC_Rules", "states": r.distinct, "bounds": "K=3 blocks, views<=4, all orders", "negative_control_refuted": True},
        "checker_cmd": cmd,
    }, time.time() - t0, violations=len(v.violations),
        assumptions=["QC labels equal the certified block's view (label mismatch belongs to C02)", "the reference rules are evaluated on the stored part of the forest: a "
                     "condition that mentions a block that is not stored does not hold"])
    return rc


def replay(path, seed):
    return run("quick", seed)
