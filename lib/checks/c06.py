"""C06 -- protocol-level property judged by TLC on recorded executions of real replicas (spec/Trace_P.tla)."""
import protolib

PROP = "C06"
RULE = ("seeded runs of n in {4,7} REAL replicas (chained / simple / fast HotStuff; round-robin, fixed and scripted leaders incl. Byzantine ones) under a "
        "scheduler that owns delivery order, loss, duplication and timer firing, with up to f scripted-Byzantine replicas (equivocating and malformed proposals, "
        "double votes, arbitrary timeouts, forged/relabelled/replayed certificates); one trace line per scheduler step; distinct = runs")
ASSUME = ["Byzantine keys are assumed to have signed everything (ground truth counts them as backers)",
          "a scheduler step delivers one message and runs the replica's event loop to quiescence"]


def run(tier, seed):
    args = ["-runs", 120, "-steps", 220] if tier == "quick" else ["-runs", 1500, "-steps", 400]
    # replicas that commit a long branch at once (a burst of execute events): a replica cut off for a dozen views that catches up
    k = 10 if tier == "quick" else 200
    more = [  # calm runs in which the Byzantine replicas lead their views with well-formed blocks that repeat client commands: committed
            # chains with duplicates, at replicas where a client waits and at replicas where none does
            ["-only", "coop", "-runs", 2 * k, "-steps", 260, "-rulesets", "chainedhotstuff,simplehotstuff"],
            ["-heal", "-nobyz", "-suffix", 16, "-only", "long-laggard", "-runs", k, "-steps", 400, "-rulesets", "chainedhotstuff,simplehotstuff"],
            ["-heal", "-nobyz", "-suffix", 12, "-only", "laggard", "-runs", k, "-steps", 150],
            # ... and one that was away for some 45 views in which the others kept committing
            ["-heal", "-nobyz", "-suffix", 16, "-only", "long-laggard", "-lagviews", 45, "-runs", k // 2, "-steps", 1500, "-rulesets", "chainedhotstuff,simplehotstuff"]]
    return protolib.run_property(PROP, tier, seed, args, RULE, assumptions=ASSUME, scripts=300 if tier == "quick" else 100000, more=more)


def replay(path, seed):
    return run("quick", seed)
