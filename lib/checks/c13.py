"""C13 -- the block store is content-addressed and its ancestry answers are exact."""
import os
import time

import vlib

PROP = "C13"


def run(tier, seed):
    t0 = time.time()
    v = vlib.Verdict(PROP)
    with vlib.scratch(PROP) as d:
        # the store under concurrency (Get = two critical sections around the fetch, Store = one): design check with two negative controls
        mc = vlib.tlc("MC_BlockStoreConc", cwd=d, workers=2, timeout=600)
        if mc.status != "ok":
            raise vlib.InfraError("MC_BlockStoreConc: %r" % mc)
        for neg in ("reindex", "fallthrough"):
            rn = vlib.tlc("MC_BlockStoreConc", cfg="MC_BlockStoreConc_%s.cfg" % neg, cwd=d, workers=2, timeout=600)
            if rn.status != "violation":
                raise vlib.InfraError("MC_BlockStoreConc negative control %s not refuted" % neg)
        tr = os.path.join(d, "trace.ndjson")
        args = ["c13", "-out", tr, "-seed", seed]
        args += ["-forests", 500, "-maxblocks", 9, "-ops", 30] if tier == "quick" else ["-forests", 12000, "-maxblocks", 14, "-ops", 45]
        died = None
        try:
            # (quick finishes in seconds; a driver that is still running after a few minutes is stuck inside the code under test)
            vlib.run_harness(args, timeout=240 if tier == "quick" else 3000, partial_ok=True)
            rows = vlib.read_ndjson(tr)
        except vlib.HarnessDied as e:
            # the code under test took the driver down (e.g. an endless walk over a corrupted store): what it did before is on disk and
            # is judged; only if that shows nothing wrong is this an infrastructure error
            died = str(e)
            rows = vlib.read_ndjson_partial(tr)
            if not rows:
                raise vlib.InfraError(died)
        allrows = rows
        states = 0
        drift = None
        cmd = ""
        for _ in range(8):
            vlib.write_ndjson(tr, rows)
            rt = vlib.tlc("Trace_C13", cfg="Trace_C13_A.cfg", cwd=d, workers=1, timeout=3000, heap="12g")
            states += rt.distinct
            cmd = rt.cmd
            if rt.status == "ok":
                break
            if rt.status != "violation":
                raise vlib.InfraError("trace check: %r" % rt)
            l = vlib.last_l(rt)
            line = rows[l - 1]
            k = l - 1
            while rows[k]["op"] != "forest":
                k -= 1
            what = {"get": "Get returned a block that is not the one named by the hash (or lost a stored block)",
                    "extends": "Extends answered %s for blocks whose true ancestry is the opposite" % line.get("res"),
                    "commit": "a commit reported a block of the committed chain as abandoned, or reported a block twice"}[line["op"]]
            v.violation("blockstore:" + line["op"], "%s: %s; forest %s" % (what, line, rows[k]["blocks"]), {"sequence": rows[k:l], "harness": "hsverif c13 -seed %d" % seed})
            # drop this kind of line from further judging
            rows = [x for x in rows if x["op"] != line["op"] or x["op"] == "forest"] if line["op"] != "commit" else \
                   [dict(x, err=True) if x["op"] == "commit" else x for x in rows]
        vlib.write_ndjson(tr, rows)
        if not v.violations:
            rb = vlib.tlc("Trace_C13", cwd=d, workers=1, timeout=3000, heap="12g")
            if rb.status == "violation":
                drift = vlib.last_l(rb)
                v.warn("conformance drift at line %d: %s" % (drift, rows[drift - 1]))
    if died and not v.violations:
        raise vlib.InfraError("driver died and the trace up to there shows no violation: " + died)
    rc = v.finish()
    rows = allrows
    ops = {}
    for x in rows:
        ops[x["op"]] = ops.get(x["op"], 0) + 1
    nonempty_abort = sum(1 for x in rows if x["op"] == "commit" and x["aborted"])
    ext_true = sum(1 for x in rows if x["op"] == "extends" and x["res"])
    vlib.write_evidence(PROP, tier, seed, "model_checking", {
        "states": states, "transitions": states,
        "traces_validated_against_impl": ops.get("forest", 0),
        "samples": [rows[0], next(x for x in rows if x["op"] == "commit" and x["aborted"]), next(x for x in rows if x["op"] == "extends" and x["res"])],
        "evaluations": len(rows), "distinct_nontrivial": ops.get("forest", 0),
        "rule": "seeded random forests (<= %d blocks: forks, equal views on different branches, view gaps, parents outside the universe) plus the structured "
                "equivocation-next-to-gap family; per forest a sequence of store (with duplicates) / get (local and through the real RequestBlockQF with lying "
                "replies; the requested block may arrive by another path while it is being fetched, the fetch answering or not) / extends / commit (real "
                "Committer with a scripted commit rule); distinct = forests" % (9 if tier == "quick" else 14),
        "ops": ops, "commits_reporting_abandoned_blocks": nonempty_abort, "extends_true": ext_true,
        "conformance": "ok" if not drift else "drift at line %d" % drift,
        "model_concurrent": {"module": "MC_BlockStoreConc", "states": mc.distinct, "negative_controls_refuted": 2},
        "arrivals_during_fetch": sum(1 for x in rows if x["op"] == "store" and x.get("during") == "fetch"),
        "checker_cmd": cmd,
    }, time.time() - t0, violations=len(v.violations),
        assumptions=["Extends answers are judged only when every block the walk needs is stored or fetchable (DESIGN 6/C13)",
                     "the commit rule only names blocks above the committed block"])
    return rc


def replay(path, seed):
    return run("quick", seed)
