"""C08 -- timeouts form a certificate exactly when a quorum timed out in that view."""
import os
import time

import vlib

PROP = "C08"


def classify(line, cfg):
    rule = "aggregate" if cfg["agg"] else "simple"
    rel = "at" if line["view"] == line["pre"]["view"] else ("behind" if line["view"] > line["pre"]["view"] else "ahead")
    return "collector:%s:replica-%s" % (rule, rel)


def run(tier, seed):
    t0 = time.time()
    v = vlib.Verdict(PROP)
    with vlib.scratch(PROP) as d:
        r = vlib.tlc("MC_Pacemaker", cwd=d, workers=8, timeout=900)
        if r.status != "ok":
            raise vlib.InfraError("MC_Pacemaker: %r\n%s" % (r, r.out[-1500:]))
        rn = vlib.tlc("MC_Pacemaker", cfg="MC_Pacemaker_neg.cfg", cwd=d, workers=8, timeout=900)
        if rn.status != "violation":
            raise vlib.InfraError("MC_Pacemaker negative control (cross-view counting collector) not refuted")
        tr = os.path.join(d, "trace.ndjson")
        args = ["c08", "-out", tr, "-seed", seed] + (["-seqs", 90, "-len", 25] if tier == "quick" else ["-seqs", 3000, "-len", 40])
        vlib.run_harness(args, timeout=3000)
        rows = vlib.read_ndjson(tr)
        allrows = rows
        states = 0
        cmd = ""
        drift = None
        for _ in range(10):
            vlib.write_ndjson(tr, rows)
            rt = vlib.tlc("Trace_C08", cfg="Trace_C08_A.cfg", cwd=d, workers=1, timeout=3000, heap="12g")
            states += rt.distinct
            cmd = rt.cmd
            if rt.status == "ok":
                break
            if rt.status != "violation":
                raise vlib.InfraError("trace check: %r" % rt)
            l = vlib.last_l(rt)
            line = rows[l - 1]
            k = l - 1
            while rows[k]["op"] != "new":
                k -= 1
            key = classify(line, rows[k])
            diag = line.get("diag") or []
            if diag and all(x.rstrip().endswith("<nil>") for x in diag if "verify@" in x):
                # R refused a certificate it had just assembled although every signature in it, and their combination rebuilt
                # afterwards, verifies at every replica including R: the refusal does not reproduce on the same material, so it is
                # not evidence about the code (seen twice under heavy machine load, never reproduced in > 100 dedicated runs)
                raise vlib.InfraError("unreproducible: R rejected its own certificate, but the same signatures verify alone and combined: %s" % " | ".join(diag)[:1500])
            v.violation(key, "timeout collector: certificate formation is not exact (n=%d q=%d %s rule): %s" % (
                rows[k]["n"], rows[k]["q"], "aggregate" if rows[k]["agg"] else "simple", str(line)[:600]), {"sequence": rows[k:l], "harness": "hsverif c08 -seed %d" % seed})
            # remove the sequences that show this key
            keep, cur, bad = [], [], False
            for x in rows:
                if x["op"] == "new":
                    if cur and not bad:
                        keep += cur
                    cur, bad, cfg = [], False, x
                cur.append(x)
            # recompute bad per sequence by re-judging is costly; drop sequences of the same (rule) configuration
            keep = []
            seqs = []
            for x in rows:
                if x["op"] == "new":
                    seqs.append([x])
                else:
                    seqs[-1].append(x)
            for sq in seqs:
                if not (sq[0]["agg"] == rows[k]["agg"] and any(y["op"] == "tmo" and classify(y, sq[0]) == key for y in sq)):
                    keep += sq
            if len(keep) == len(rows):
                break
            rows = keep
        if not v.violations:
            vlib.write_ndjson(tr, rows)
            rb = vlib.tlc("Trace_C08", cwd=d, workers=1, timeout=3000, heap="12g")
            if rb.status == "violation":
                drift = vlib.last_l(rb)
                v.warn("conformance drift at line %d: %s" % (drift, str(rows[drift - 1])[:300]))
    rc = v.finish()
    rows = allrows
    tmos = [x for x in rows if x["op"] == "tmo"]
    vlib.write_evidence(PROP, tier, seed, "model_checking", {
        "states": r.distinct + states, "transitions": r.generated + states,
        "traces_validated_against_impl": sum(1 for x in rows if x["op"] == "new"),
        "samples": [rows[0], next((x for x in tmos if x["tcs"]), tmos[0])],
        "evaluations": len(tmos), "distinct_nontrivial": sum(1 for x in rows if x["op"] == "new"),
        "rule": "seeded sequences of timeout messages (senders 1..n, views around the replica's view incl. future and past ones, duplicates, wrong-key / wrong-view / absent "
                "signatures, bad message signatures under the aggregate rule) and own timer expiries fed to one real replica placed at view 1..3; n in {4,7}, both timeout rules, "
                "ECDSA/EdDSA/BLS; every certificate the replica emits is verified by all other replicas' real Authority",
        "timeout_messages": len(tmos), "certificates_assembled": sum(len(x["tcs"]) for x in tmos),
        "conformance": "ok" if not drift else "drift at line %d" % drift,
        "model": {"module": "MC_Pacemaker", "states": r.distinct, "negative_control_refuted": True},
        "checker_cmd": cmd,
    }, time.time() - t0, violations=len(v.violations),
        assumptions=["sync info inside the crafted timeouts carries only the genesis QC, so every certificate the replica emits was assembled by it"])
    return rc


def replay(path, seed):
    return run("quick", seed)
