"""C19 -- participant sets behave as mathematical sets of replica IDs."""
import os
import time

import vlib

PROP = "C19"


def run(tier, seed):
    t0 = time.time()
    v = vlib.Verdict(PROP)
    with vlib.scratch(PROP) as d:
        r = vlib.tlc("MC_IDSet", cwd=d, workers=4, timeout=300)
        if r.status != "ok":
            raise vlib.InfraError("MC_IDSet: model does not satisfy Agrees: %r" % r)
        tr = os.path.join(d, "trace.ndjson")
        args = ["c19", "-out", tr, "-seed", seed]
        if tier == "quick":
            args += ["-depth", 2, "-rand", 300, "-twobyte", 3000, "-longbytes", 300]
        else:
            args += ["-depth", 3, "-rand", 3000, "-twobyte", 65536, "-longbytes", 5000]
        vlib.run_harness(args, timeout=1200)
        rows = vlib.read_ndjson(tr)
        rt = vlib.tlc("Trace_C19", cwd=d, workers=1, timeout=1800, heap="8g")
        drift = None
        if rt.status == "violation" and rt.violated == "ConformsToModel":
            drift = vlib.last_l(rt)
            v.warn("conformance drift at line %d: %s" % (drift, rows[drift - 1]))
            rt = vlib.tlc("Trace_C19", cfg="Trace_C19_A.cfg", cwd=d, workers=1, timeout=1800, heap="8g")
        if rt.status == "violation":
            l = vlib.last_l(rt)
            line = rows[l - 1]
            # context: the operations since the last "new"
            k = l - 1
            while k > 0 and rows[k]["op"] in ("add",) and rows[k - 1]["op"] != "new":
                k -= 1
            ctx = rows[max(0, k - 1):l]
            key = "idset:" + line["op"] + (":" + line.get("scheme", "") if line["op"] == "multi" else "")
            v.violation(key, "observation of the real %s disagrees with the ideal set at line %d: %s" % (
                "Bitfield" if line["op"] != "multi" else "multi-signature", l, line), {"line": l, "ops": ctx,
                "harness": "hsverif c19 -seed %d" % seed})
        elif rt.status != "ok":
            raise vlib.InfraError("trace check: %r" % rt)
        elif rt.distinct != len(rows) + 1:
            raise vlib.InfraError("trace not fully consumed: %d states for %d lines" % (rt.distinct, len(rows)))
    rc = v.finish()
    kinds = {}
    for x in rows:
        kinds[x["op"]] = kinds.get(x["op"], 0) + 1
    distinct = len({(x["op"], tuple(x.get("bytes", [])), tuple(x.get("signers", [])), x.get("scheme")) for x in rows if x["op"] != "new"})
    vlib.write_evidence(PROP, tier, seed, "model_checking", {
        "states": r.distinct + rt.distinct, "transitions": r.generated + rt.generated,
        "traces_validated_against_impl": kinds.get("new", 0) + kinds.get("frombytes", 0) + kinds.get("multi", 0),
        "samples": [rows[1], rows[2], next(x for x in rows if x["op"] == "multi" and len(x["signers"]) > 2)],
        "evaluations": len(rows), "distinct_nontrivial": distinct,
        "rule": "operation lines on the real Bitfield (all add sequences over the boundary ids to the tier's depth, seeded random "
                "sequences over 1..300, all 0/1-byte strings and %s 2-byte strings, random longer ones) and Sign/Combine lattices over 5 signers "
                "for ECDSA, EdDSA, BLS12; distinct = distinct (op, resulting bytes / signer list, scheme)" % ("all" if tier != "quick" else "sampled"),
        "by_op": kinds, "conformance": "drift at line %s" % drift if drift else "ok",
        "model": {"module": "MC_IDSet", "states": r.distinct, "ids": "{1,7,8,9,16,17,24,25}", "exhaustive": True},
        "checker_cmd": rt.cmd,
    }, time.time() - t0, violations=len(v.violations),
        assumptions=["a single signature of each scheme is produced by the real Sign; ids >= 1 (ID 0 is not a replica id)"])
    return rc


def replay(path, seed):
    return run("quick", seed)
