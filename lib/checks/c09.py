"""C09 -- votes form a QC exactly when a quorum voted for that block."""
import os
import time

import vlib

PROP = "C09"


def run(tier, seed):
    t0 = time.time()
    v = vlib.Verdict(PROP)
    with vlib.scratch(PROP) as d:
        r = vlib.tlc("MC_VoteCollector", cwd=d, workers=8, timeout=900)
        if r.status != "ok":
            raise vlib.InfraError("MC_VoteCollector: %r\n%s" % (r, r.out[-1500:]))
        rn = vlib.tlc("MC_VoteCollector", cfg="MC_VoteCollector_neg.cfg", cwd=d, workers=8, timeout=900)
        if rn.status != "violation":
            raise vlib.InfraError("MC_VoteCollector negative control (multi-signer votes accepted) not refuted")
        tr = os.path.join(d, "trace.ndjson")
        vlib.run_harness(["c09", "-out", tr, "-seed", seed] + (["-seqs", 60, "-rounds", 4] if tier == "quick" else ["-seqs", 2400, "-rounds", 6]), timeout=3000)
        rows = vlib.read_ndjson(tr)
        kr = []
        ktr = os.path.join(d, "kauri.ndjson")
        vlib.run_harness(["c09kauri", "-out", ktr, "-seed", seed] + (["-seqs", 60] if tier == "quick" else ["-seqs", 2400]), timeout=3000)
        kr = vlib.read_ndjson(ktr)
        allrows = rows + kr
        states = 0
        cmd = ""
        drift = None
        for module, part, tag in (("Trace_C09", rows, "clique"), ("Trace_C09k", kr, "kauri")):
            for _ in range(6):
                vlib.write_ndjson(tr, part)
                rt = vlib.tlc(module, cfg=module + "_A.cfg", cwd=d, workers=1, timeout=3000, heap="12g")
                states += rt.distinct
                cmd = rt.cmd
                if rt.status == "ok":
                    break
                if rt.status != "violation":
                    raise vlib.InfraError("trace check: %r\n%s" % (rt, rt.out[-1500:]))
                l = vlib.last_l(rt)
                line = part[l - 1]
                k = l - 1
                while part[k]["op"] != "new":
                    k -= 1
                mode = "async" if part[k].get("async") else "sync"
                key = "votes:%s:%s" % (tag, mode if tag == "clique" else line["op"])
                v.violation(key, "%s collector: certificate formation is not exact (n=%d q=%d, %s): %s" % (
                    tag, part[k]["n"], part[k]["q"], mode, str(line)[:500]), {"sequence": part[k:l], "harness": "hsverif c09 -seed %d" % seed})
                seqs = []
                for x in part:
                    if x["op"] == "new":
                        seqs.append([x])
                    else:
                        seqs[-1].append(x)
                part = [x for sq in seqs if (tag == "clique" and bool(sq[0].get("async")) != (mode == "async")) for x in sq]
                if not part:
                    break
            if not v.violations and part:
                vlib.write_ndjson(tr, part)
                rb = vlib.tlc(module, cwd=d, workers=1, timeout=3000, heap="12g")
                if rb.status == "violation" and drift is None:
                    drift = (tag, vlib.last_l(rb))
                    v.warn("conformance drift (%s) at line %d: %s" % (tag, drift[1], str(part[drift[1] - 1])[:300]))
    rc = v.finish()
    ops = {}
    for x in allrows:
        ops[x["op"]] = ops.get(x["op"], 0) + 1
    vlib.write_evidence(PROP, tier, seed, "model_checking", {
        "states": r.distinct + states, "transitions": r.generated + states,
        "traces_validated_against_impl": ops.get("new", 0),
        "samples": [rows[0], next((x for x in rows if x.get("qcs")), rows[2]), next((x for x in kr if x.get("qcs")), kr[0] if kr else {})],
        "evaluations": len(allrows), "distinct_nontrivial": ops.get("new", 0),
        "rule": "clique: per round a puppet leader's proposal and votes (valid, duplicate, wrong-block, relabelled, two-signer, stale, unknown-block, outsider) reach a real "
                "replica's VotingMachine in scheduler order, before or after the block, sometimes with a view change on a timeout certificate in between, synchronous and asynchronous verification (completion order chosen by the scheduler), "
                "n in {4,7}, three schemes; kauri: contributions (valid, overlapping, invalid, duplicate, wrong view, from non-children) at real Kauri nodes (root, inner, leaf); "
                "every emitted certificate / contribution is verified by the other replicas' real Authority",
        "ops": ops, "certificates_emitted": sum(len(x.get("qcs") or []) for x in allrows),
        "conformance": "ok" if not drift else "drift %s" % (drift,),
        "model": {"module": "MC_VoteCollector", "states": r.distinct, "negative_control_refuted": True},
        "checker_cmd": cmd,
    }, time.time() - t0, violations=len(v.violations),
        assumptions=["the sender id of a vote is the transport-authenticated peer id", "asynchronous verifications complete in an order chosen by the scheduler (gated crypto wrapper)"])
    return rc


def replay(path, seed):
    return run("quick", seed)
