"""C17 -- the Kauri tree is one consistent tree over all replicas."""
import os
import time

import vlib

PROP = "C17"


def run(tier, seed):
    t0 = time.time()
    v = vlib.Verdict(PROP)
    with vlib.scratch(PROP) as d:
        r = vlib.tlc("MC_KauriTree", cwd=d, workers=8, timeout=600)
        if r.status != "ok":
            raise vlib.InfraError("MC_KauriTree: the layout model is not one tree: %r\n%s" % (r, r.out[-1500:]))
        tr = os.path.join(d, "trace.ndjson")
        args = ["c17", "-out", tr, "-seed", seed, "-maxn", 40]
        args += ["-permn", 5, "-rand", 2] if tier == "quick" else ["-permn", 7, "-rand", 12]
        vlib.run_harness(args, timeout=1200)
        rows = vlib.read_ndjson(tr)
        rt = vlib.tlc("Trace_C17", cwd=d, workers=1, timeout=3000, heap="8g")
        drift = None
        if rt.status == "violation" and rt.violated == "ConformsToModel":
            drift = vlib.last_l(rt)
            v.warn("conformance drift at line %d (n=%s bf=%s pos=%s)" % (drift, rows[drift - 1]["n"], rows[drift - 1]["bf"], rows[drift - 1]["pos"]))
            rt = vlib.tlc("Trace_C17", cfg="Trace_C17_A.cfg", cwd=d, workers=1, timeout=3000, heap="8g")
        if rt.status == "violation":
            l = vlib.last_l(rt)
            line = rows[l - 1]
            v.violation("kauri-tree", "per-replica tree views do not form one tree for n=%d bf=%d pos=%s" % (line["n"], line["bf"], line["pos"]),
                        {"line": l, "case": line})
        elif rt.status != "ok":
            raise vlib.InfraError("trace check: %r" % rt)
        elif rt.distinct != len(rows) + 1:
            raise vlib.InfraError("trace not fully consumed")
    rc = v.finish()
    vlib.write_evidence(PROP, tier, seed, "model_checking", {
        "states": r.distinct + rt.distinct, "transitions": r.generated + rt.generated,
        "traces_validated_against_impl": len(rows),
        "samples": [{k: rows[i][k] for k in ("n", "bf", "pos")} | {"view_of_first": rows[i]["views"][0]} for i in (0, len(rows) // 2, len(rows) - 1)],
        "evaluations": len(rows), "distinct_nontrivial": len({(x["bf"], tuple(x["pos"])) for x in rows if x["n"] > 1}),
        "rule": "(n, branch factor, position assignment): n in 1..40, bf in 2..6, all permutations for n <= %d, identity + seeded random "
                "permutations above; every replica's own tree.Tree is dumped; non-trivial = n > 1" % (5 if tier == "quick" else 7),
        "conformance": "drift at line %s" % drift if drift else "ok",
        "model": {"module": "MC_KauriTree", "states": r.distinct, "bounds": "n<=24 identity, all permutations n<=5, bf 2..6"},
        "checker_cmd": rt.cmd,
    }, time.time() - t0, violations=len(v.violations), assumptions=["replica ids in the position list are distinct (configuration validity)"])
    return rc


def replay(path, seed):
    return run("quick", seed)
