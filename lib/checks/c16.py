"""C16 -- all replicas agree on a valid leader for every view."""
import os
import time

import vlib

PROP = "C16"


def run(tier, seed):
    t0 = time.time()
    v = vlib.Verdict(PROP)
    with vlib.scratch(PROP) as d:
        r = vlib.tlc("MC_Leader", cwd=d, workers=4, timeout=300)
        if r.status != "ok":
            raise vlib.InfraError("MC_Leader failed: %r" % r)
        tr = os.path.join(d, "trace.ndjson")
        args = ["c16", "-out", tr, "-seed", seed]
        args += ["-carousel", 150, "-rep", 60] if tier == "quick" else ["-carousel", 20000, "-rep", 8000]
        vlib.run_harness(args, timeout=1200)
        rows = vlib.read_ndjson(tr)
        rt = vlib.tlc("Trace_C16", cwd=d, workers=1, timeout=3000, heap="8g")
        drift = None
        if rt.status == "violation" and rt.violated == "ConformsToModel":
            drift = vlib.last_l(rt)
            v.warn("conformance drift at line %d: %s" % (drift, str(rows[drift - 1])[:300]))
            rt = vlib.tlc("Trace_C16", cfg="Trace_C16_A.cfg", cwd=d, workers=1, timeout=3000, heap="8g")
        if rt.status == "violation":
            l = vlib.last_l(rt)
            line = rows[l - 1]
            v.violation("leader:" + line["kind"], "leader answers violate C16 for a %s case: %s" % (line["kind"], str(line)[:400]),
                        {"line": l, "case": line, "harness": "hsverif c16 -seed %d" % seed})
        elif rt.status != "ok":
            raise vlib.InfraError("trace check: %r" % rt)
        elif rt.distinct != len(rows) + 1:
            raise vlib.InfraError("trace not fully consumed")
    rc = v.finish()
    kinds = {}
    for x in rows:
        kinds[x["kind"]] = kinds.get(x["kind"], 0) + 1
    active = sum(1 for x in rows if x["kind"] == "carousel" and x["head"]["signed"] and x["head"]["view"] == x["round"] - x["chainLength"])
    vlib.write_evidence(PROP, tier, seed, "model_checking", {
        "states": r.distinct + rt.distinct, "transitions": r.generated + rt.generated,
        "traces_validated_against_impl": len(rows),
        "samples": [next(x for x in rows if x["kind"] == k) for k in ("rr", "tree", "carousel", "rep")],
        "evaluations": len(rows), "distinct_nontrivial": kinds.get("rr", 0) + active + kinds.get("rep", 0),
        "rule": "rr: every n in 1..64 x 8 start views (0, 2^16, 2^31, 2^32, 2^53, 2^63, 2^64-4n, random) x 4n+1 consecutive views on two instances; "
                "fixed/tree per n; carousel: generated committed chains (n 1..33, gaps, every prefix as head, rounds around head+chainLength) on two "
                "independent instances; reputation: generated head-update/query sequences on two instances. non-trivial = rr lines, *active* carousel "
                "cases, reputation sequences",
        "by_kind": kinds, "carousel_active_cases": active,
        "conformance": "drift at line %s" % drift if drift else "ok",
        "model": {"module": "MC_Leader", "n": "1..64", "states": r.distinct},
        "checker_cmd": rt.cmd,
    }, time.time() - t0, violations=len(v.violations),
        assumptions=["committed heads carry QCs signed by a quorum of distinct configured replicas (C02)",
                     "the reputation scheme may answer 0 (documented by the property); it must only be deterministic and panic-free"])
    return rc


def replay(path, seed):
    return run("quick", seed)
