"""C20 -- the quorum size guarantees intersection and availability for every n."""
import json
import os
import subprocess
import time

import vlib

PROP = "C20"


def apalache(cwd, inv, timeout=300):
    cmd = ["apalache-mc", "check", "--length=0", "--inv=" + inv, "--out-dir=" + os.path.join(cwd, "_apalache-out"),
           "QuorumApa.tla"]
    try:
        p = subprocess.run(cmd, cwd=cwd, capture_output=True, text=True, timeout=timeout)
    except subprocess.TimeoutExpired:
        raise vlib.InfraError("apalache timed out")
    out = p.stdout + p.stderr
    if "EXITCODE: OK" in out:
        return True
    if "EXITCODE: ERROR (12)" in out:
        return False
    raise vlib.InfraError("apalache failed:\n" + out[-3000:])


def run(tier, seed):
    t0 = time.time()
    v = vlib.Verdict(PROP)
    max_n = 20000 if tier == "quick" else 1000000
    with vlib.scratch(PROP) as d:
        # (1) model: TLC for n in 1..10^4, negative control, Apalache for all n
        r = vlib.tlc("MC_Quorum", cwd=d, workers=4, timeout=300)
        if r.status != "ok":
            raise vlib.InfraError("model MC_Quorum does not satisfy the property: %r\n%s" % (r, r.out[-2000:]))
        rn = vlib.tlc("MC_Quorum", cfg="MC_Quorum_neg.cfg", cwd=d, workers=4, timeout=300)
        if rn.status != "violation":
            raise vlib.InfraError("negative control (wrong quorum formula) was not refuted by TLC")
        apa_ok = apalache(d, "Inv")
        apa_neg = apalache(d, "BadInv")
        if not apa_ok or apa_neg:
            raise vlib.InfraError("Apalache: Inv=%s BadInv=%s (expected True/False)" % (apa_ok, apa_neg))
        # (2) code -> spec: dump the real functions, TLC judges every number
        tr = os.path.join(d, "trace.ndjson")
        vlib.run_harness(["c20", "-out", tr, "-max", max_n, "-chunk", 1000, "-members", 13])
        rows = vlib.read_ndjson(tr)
        # threshold use: boundary certificates through the real Verify* for n in 1..13 (driver shared with C02)
        tr2 = os.path.join(d, "use.ndjson")
        died = None
        try:
            vlib.run_harness(["c02", "-out", tr2, "-seed", seed, "-ns", ",".join(str(i) for i in range(1, 14)),
                              "-schemes", "eddsa" if tier == "quick" else "eddsa,ecdsa,bls12", "-reps", 1], timeout=1200, partial_ok=True)
            use_rows = vlib.read_ndjson(tr2)
        except vlib.HarnessDied as e:
            # the shared driver gave up (e.g. honest signatures at the quorum size could not be combined): the numbers dumped above and
            # what it wrote so far are still judged; only if they show nothing is this an infrastructure error
            died = str(e)
            use_rows = vlib.read_ndjson_partial(tr2)
        nuse = 0
        for x in use_rows:
            if x["kind"] in ("qc", "tc") and (x["mut"].startswith("plain-") or x["mut"] == "honest-created") and not x["cache"]:
                sg = x[x["kind"]]["sig"]
                rows.append({"kind": "use", "n": x["n"], "what": x["kind"], "scheme": x["scheme"],
                             "k": len(sg["bits"]) if sg["t"] == "bls" else len(sg["e"]), "ok": x["ok"]})
                nuse += 1
        vlib.write_ndjson(tr, rows)
        rt = vlib.tlc("Trace_C20", cwd=d, workers=1, timeout=1200, heap="8g")
        nvals = sum(len(x["f"]) for x in rows if x["kind"] == "chunk")
        ncfg = sum(1 for x in rows if x["kind"] == "config")
        if rt.status == "violation":
            l = vlib.last_l(rt)
            line = rows[l - 1] if 0 < l <= len(rows) else None
            if rt.violated == "PropertyOK":
                bad = None
                if line and line["kind"] == "chunk":
                    for i, (f, q) in enumerate(zip(line["f"], line["q"])):
                        n = line["n0"] + i
                        ok = f >= 0 and 3 * f < n <= 3 * (f + 1) and 2 * q - n >= f + 1 and q <= n - f and 2 * (q - 1) - n < f + 1
                        if not ok:
                            bad = {"n": n, "f": f, "q": q}
                            break
                if line and line["kind"] == "use":
                    v.violation("quorum-use:" + line["what"], "certificate verification does not use the quorum threshold: %s" % line, {"line": l, "case": line})
                else:
                    v.violation("quorum-arith", "NumFaulty/QuorumSize break the property at %s" % (bad or line),
                                {"line": l, "case": bad or line, "harness": "hsverif c20 -max %d" % max_n})
            else:
                v.warn("conformance drift: real values differ from the model's F/Q at line %d (property still holds)" % l)
                # re-run with the property alone so that the rest is judged
                cfg = os.path.join(d, "Trace_C20_A.cfg")
                with open(cfg, "w") as fh:
                    fh.write("SPECIFICATION Spec\nINVARIANT PropertyOK\n")
                rt2 = vlib.tlc("Trace_C20", cfg="Trace_C20_A.cfg", cwd=d, workers=1, timeout=1200, heap="8g")
                if rt2.status == "violation":
                    l = vlib.last_l(rt2)
                    v.violation("quorum-arith", "NumFaulty/QuorumSize break the property at line %d" % l,
                                {"line": l, "case": rows[l - 1] if 0 < l <= len(rows) else None})
        elif rt.status != "ok":
            raise vlib.InfraError("trace check failed: %r" % rt)
        if rt.status == "ok" and rt.distinct != len(rows) + 1:
            raise vlib.InfraError("trace not fully consumed: %d states for %d lines" % (rt.distinct, len(rows)))
    # threshold use when certificates are FORMED: the vote collector, the Kauri aggregation and the timeout collector must
    # produce a certificate exactly when the quorum is reached (the drivers and trace specifications of C09 / C08, small runs)
    formed = {}
    with vlib.scratch(PROP + "f") as d2:
        for drv, args, module in (("c09", ["-seqs", 24, "-rounds", 3], "Trace_C09"), ("c09kauri", ["-seqs", 40], "Trace_C09k"),
                                  ("c08", ["-seqs", 40, "-len", 20], "Trace_C08")):
            tr3 = os.path.join(d2, "trace.ndjson")
            vlib.run_harness([drv, "-out", tr3, "-seed", seed] + args, timeout=1200)
            part = vlib.read_ndjson(tr3)
            rtf = vlib.tlc(module, cfg=module + "_A.cfg", cwd=d2, workers=1, timeout=1200, heap="8g")
            formed[drv] = len(part)
            if rtf.status == "violation":
                lf = vlib.last_l(rtf)
                line = part[lf - 1] if 0 < lf <= len(part) else None
                v.violation("quorum-use:formation:" + drv, "a certificate is not formed exactly when the quorum is reached (%s): %s" % (drv, str(line)[:500]),
                            {"line": lf, "case": line, "harness": "hsverif %s -seed %d" % (drv, seed)})
            elif rtf.status != "ok":
                raise vlib.InfraError("formation check %s: %r" % (drv, rtf))
    if died and not v.violations:
        raise vlib.InfraError("threshold-use driver died and nothing judged so far is wrong: " + died)
    rc = v.finish()
    samples = [{"n": rows[0]["n0"] + i, "f": rows[0]["f"][i], "q": rows[0]["q"][i]} for i in (0, 3, 6, 12)]
    samples += [x for x in rows if x["kind"] == "config"][:3]
    vlib.write_evidence(PROP, tier, seed, "model_checking", {
        "states": r.distinct + rt.distinct,
        "transitions": r.generated + rt.generated,
        "traces_validated_against_impl": 1,
        "samples": samples,
        "exhaustive": True,
        "evaluations": nvals + ncfg,
        "distinct_nontrivial": nvals + ncfg,
        "rule": "every n in 1..%d (hotstuff.NumFaulty, hotstuff.QuorumSize) and every membership size 1..13 "
                "(RuntimeConfig.QuorumSize); each n is a distinct case; plus boundary certificates (0,1,q-1,q,q+1,n distinct valid signatures) through the real "
                "VerifyQuorumCert/VerifyTimeoutCert for n in 1..13" % max_n,
        "model": {"tlc_n_range": "1..10000", "tlc_states": r.distinct, "negative_control_refuted": True,
                  "apalache_all_n": {"obligations": 1, "discharged": 1, "negative_control_refuted": True,
                                     "cmd": "apalache-mc check --length=0 --inv=Inv QuorumApa.tla"}},
        "trace_lines": len(rows), "threshold_use_cases": nuse, "formation_lines_checked": formed,
        "checker_cmd": rt.cmd,
    }, time.time() - t0, violations=len(v.violations), assumptions=[
        "TLC, Apalache/Z3 and SANY are sound", "threshold use when forming certificates: small runs of the C08/C09 drivers; their depth is C08/C09's"])
    return rc


def replay(path, seed):
    return run("quick", seed)
