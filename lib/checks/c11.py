"""C11 -- the signature cache never changes a verification verdict."""
import os
import time

import vlib

PROP = "C11"


def key_of(line):
    if line["op"] == "combine":
        return "cache:combine"
    if line["op"] == "xverify":
        return "cache:verify:" + line.get("of", "batch-digest")
    s = line["sig"]
    kind = "label" if (s["t"] == "multi" and any(e[0] != e[1] for e in s["e"])) or (s["t"] == "bls" and sorted(s["bits"]) != sorted({e[1] for e in s["e"]})) else "message"
    return "cache:%s:%s" % (line["op"], kind)


def agree(x):
    if x["op"] == "overlap":
        return all(vc == x["vu"] for vc in x["vcs"])
    return x.get("vc", x.get("okc")) == x.get("vu", x.get("oku"))


def run(tier, seed):
    t0 = time.time()
    v = vlib.Verdict(PROP)
    with vlib.scratch(PROP) as d:
        r = vlib.tlc("MC_SigCache", cwd=d, workers=8, timeout=600)
        if r.status != "ok":
            raise vlib.InfraError("MC_SigCache: %r\n%s" % (r, r.out[-1500:]))
        rn = vlib.tlc("MC_SigCache", cfg="MC_SigCache_neg.cfg", cwd=d, workers=8, timeout=600)
        if rn.status != "violation":
            raise vlib.InfraError("MC_SigCache negative control (old cache key) not refuted")
        rn2 = vlib.tlc("MC_SigCache", cfg="MC_SigCache_neg2.cfg", cwd=d, workers=8, timeout=600)
        if rn2.status != "violation":
            raise vlib.InfraError("MC_SigCache negative control (single and batch verification in one key space) not refuted")
        # overlapping requests: two critical sections per call
        rc1 = vlib.tlc("MC_SigCacheConc", cwd=d, workers=8, timeout=600)
        rc2 = vlib.tlc("MC_SigCacheConc", cfg="MC_SigCacheConc_c2.cfg", cwd=d, workers=8, timeout=600)
        if rc1.status != "ok" or rc2.status != "ok":
            raise vlib.InfraError("MC_SigCacheConc: %r %r" % (rc1, rc2))
        rcn = vlib.tlc("MC_SigCacheConc", cfg="MC_SigCacheConc_neg.cfg", cwd=d, workers=8, timeout=600)
        if rcn.status != "violation" or rcn.violated != "Transparent":
            raise vlib.InfraError("MC_SigCacheConc negative control (key reserved before verification) not refuted")
        tr = os.path.join(d, "trace.ndjson")
        args = ["c11", "-out", tr, "-seed", seed]
        args += ["-seqs", 25, "-len", 60] if tier == "quick" else ["-seqs", 400, "-len", 120]
        vlib.run_harness(args, timeout=3000)
        rows = vlib.read_ndjson(tr)
        rt = vlib.tlc("Trace_C11", cwd=d, workers=1, timeout=3000, heap="12g")
        drift = None
        if rt.status == "violation" and rt.violated != "PropertyOK":
            drift = (rt.violated, vlib.last_l(rt))
            v.warn("conformance drift %s at line %d: %s" % (rt.violated, drift[1], str(rows[drift[1] - 1])[:300]))
            rt = vlib.tlc("Trace_C11", cfg="Trace_C11_A.cfg", cwd=d, workers=1, timeout=3000, heap="12g")
        seen = 0
        while rt.status == "violation" and seen < 20:
            l = vlib.last_l(rt)
            line = rows[l - 1]
            # the sequence since the last "new"
            k = l - 1
            while k > 0 and rows[k]["op"] != "new":
                k -= 1
            v.violation(key_of(line), "cached and uncached authority disagree (%s, cached=%s uncached=%s): %s" % (
                line["op"], line.get("vc", line.get("vcs", line.get("okc"))), line.get("vu", line.get("oku")), str(line)[:400]),
                {"line": l, "sequence": rows[k:l], "harness": "hsverif c11 -seed %d" % seed})
            kk = key_of(line)
            rows2 = [x for x in rows if x["op"] in ("new", "sign") or key_of(x) != kk or agree(x)]
            if len(rows2) == len(rows):
                break
            rows = rows2
            vlib.write_ndjson(tr, rows)
            rt = vlib.tlc("Trace_C11", cfg="Trace_C11_A.cfg", cwd=d, workers=1, timeout=3000, heap="12g")
            seen += 1
        if rt.status not in ("ok", "violation"):
            raise vlib.InfraError("trace check: %r" % rt)
    rc = v.finish()
    ops = {}
    for x in rows:
        ops[x["op"]] = ops.get(x["op"], 0) + 1
    hits = sum(1 for x in rows if x["op"] in ("verify", "batch") and x["vu"] and any(k == x["key"] for k in x["lru"][1:]))
    vlib.write_evidence(PROP, tier, seed, "model_checking", {
        "states": r.distinct + rt.distinct, "transitions": r.generated + rt.generated,
        "traces_validated_against_impl": ops.get("new", 0),
        "samples": [x for x in rows[:40] if x["op"] in ("verify", "batch")][:3],
        "evaluations": len(rows), "distinct_nontrivial": len({str(x.get("key")) + str(x.get("vu")) for x in rows if x["op"] in ("verify", "batch")}),
        "rule": "seeded operation sequences (sign, verify, batch-verify, combine, list signatures re-cut at another entry boundary, combinations with a signature over another message (then verified), overlapping verify/batch-verify calls for one signature, each started while "
                "the earlier ones are inside the scheme's verification; replays with altered message, batch, view and signer labels) on a cached "
                "(capacity 1..4 or 50) and an uncached real Authority of the same replica, ECDSA/EdDSA/BLS; distinct = distinct (cache key, verdict)",
        "ops": ops, "conformance": "ok" if not drift else "drift %s" % (drift,),
        "model": {"module": "MC_SigCache", "states": r.distinct, "negative_control_refuted": True},
        "model_concurrent": {"module": "MC_SigCacheConc", "states": rc1.distinct + rc2.distinct, "negative_control_refuted": True},
        "overlaps": {"lines": ops.get("overlap", 0), "both_reached_scheme": sum(1 for x in rows if x["op"] == "overlap" and all(x["reached"])),
                     "invalid": sum(1 for x in rows if x["op"] == "overlap" and not x["vu"])},
        "checker_cmd": rt.cmd,
    }, time.time() - t0, violations=len(v.violations),
        assumptions=["re-cut list signatures move one entry boundary (a random number of bytes from the end of one entry to the start of the next)"])
    return rc


def replay(path, seed):
    return run("quick", seed)
