"""C05 -- progress resumes once a quorum of honest replicas is synchronous (bounded liveness checked as safety on
recorded executions: chaos prefix with loss, duplication, timer firings and up to f crashed replicas, then a synchronous
suffix led by members of a live quorum; plus fault-free synchronous runs)."""
import protolib

PROP = "C05"
RULE = ("seeded runs of n in {4,7} real replicas: a chaos prefix (loss, duplication, reordering, timers, up to f crashed replicas, no Byzantine ones), then a synchronous "
        "suffix in which a live quorum M of honest replicas receives every message among M before any of its timers fires, everything else is lost and the views after the heal "
        "are led by members of M (round-robin / fixed / scripted leader schedules); every 5th run is fault-free and synchronous from view 1; three rulesets; distinct = runs")
ASSUME = ["the bound is 3*(ChainLength+1) views of the stepping member beyond the highest view at the heal",
          "client commands are always available (the driver tops the caches up)"]


def extra(rows):
    healed = sum(1 for x in rows if x["op"] == "heal")
    ff = sum(1 for x in rows if x["op"] == "heal" and x.get("faultfree"))
    post = sum(len(x["commits"]) for x in rows if x["op"] == "step" and x.get("healed"))
    return {"runs_with_heal": healed, "fault_free_runs": ff, "commit_events_after_heal": post}


def run(tier, seed):
    args = ["-heal", "-nobyz", "-faultfree", 5, "-suffix", 16] + (["-runs", 40, "-steps", 120] if tier == "quick" else ["-runs", 800, "-steps", 300])
    # the scenario library, one batch per scenario: a leader that is cut off in every other view of a stretch it leads and then
    # falls silent (its certificates are known to the others only from its late proposals); a lagging leader-to-be
    k = 12 if tier == "quick" else 150
    more = [["-heal", "-nobyz", "-suffix", 16, "-only", "late-leader", "-runs", k, "-steps", 200],
            ["-heal", "-nobyz", "-suffix", 16, "-only", "laggard", "-runs", k, "-steps", 150],
            # clients with a small window of outstanding commands (batch size 2) that fall silent for a few view timers inside the
            # synchronous suffix and then return: leaders find no batch, wait until their timer fires; progress must resume
            ["-heal", "-nobyz", "-suffix", 16, "-only", "client-pause", "-runs", k, "-steps", 120],
            # a replica cut off for a dozen views from the start that is needed afterwards (another one falls silent)
            ["-heal", "-nobyz", "-suffix", 16, "-only", "long-laggard", "-runs", k, "-steps", 400, "-rulesets", "chainedhotstuff,simplehotstuff"],
            ["-heal", "-nobyz", "-suffix", 16, "-only", "deaf-laggard", "-runs", k, "-steps", 500, "-rulesets", "chainedhotstuff,simplehotstuff"]]
    return protolib.run_property(PROP, tier, seed, args, RULE, extra_cov=extra, assumptions=ASSUME, more=more)


def replay(path, seed):
    return run("quick", seed)
