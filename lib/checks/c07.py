"""C07 -- protocol-level property judged by TLC on recorded executions of real replicas (spec/Trace_P.tla)."""
import protolib

PROP = "C07"
RULE = ("seeded runs of n in {4,7} REAL replicas (chained / simple / fast HotStuff; round-robin, fixed and scripted leaders incl. Byzantine ones) under a "
        "scheduler that owns delivery order, loss, duplication and timer firing, with up to f scripted-Byzantine replicas (equivocating and malformed proposals, "
        "double votes, arbitrary timeouts, forged/relabelled/replayed certificates); one trace line per scheduler step; distinct = runs")
ASSUME = ["Byzantine keys are assumed to have signed everything (ground truth counts them as backers)",
          "a scheduler step delivers one message and runs the replica's event loop to quiescence"]


def run(tier, seed):
    args = ["-runs", 240, "-steps", 220] if tier == "quick" else ["-runs", 1500, "-steps", 400]
    return protolib.run_property(PROP, tier, seed, args, RULE, assumptions=ASSUME, scripts=300 if tier == "quick" else 100000)


def replay(path, seed):
    return run("quick", seed)
