"""C14 -- events are handled once each, in order, prioritised observers first."""
import os
import time

import vlib

PROP = "C14"


def run(tier, seed):
    t0 = time.time()
    v = vlib.Verdict(PROP)
    with vlib.scratch(PROP) as d:
        r = vlib.tlc("MC_EventQueue", cwd=d, workers=4, timeout=600)
        if r.status != "ok":
            raise vlib.InfraError("MC_EventQueue: %r\n%s" % (r, r.out[-1500:]))
        tr = os.path.join(d, "trace.ndjson")
        args = ["c14", "-out", tr, "-seed", seed]
        args += ["-qdepth", 7, "-qrand", 200, "-lseqs", 250, "-llen", 40] if tier == "quick" else ["-qdepth", 11, "-qrand", 3000, "-lseqs", 4000, "-llen", 60]
        vlib.run_harness(args, timeout=3000)
        rows = vlib.read_ndjson(tr)
        rt = vlib.tlc("Trace_C14", cwd=d, workers=1, timeout=3000, heap="12g")
        drift = None
        if rt.status == "violation" and rt.violated == "ConformsToModel":
            drift = vlib.last_l(rt)
            v.warn("conformance drift at line %d: %s" % (drift, str(rows[drift - 1])[:300]))
            rt = vlib.tlc("Trace_C14", cfg="Trace_C14_A.cfg", cwd=d, workers=1, timeout=3000, heap="12g")
        if rt.status == "violation":
            l = vlib.last_l(rt)
            line = rows[l - 1]
            k = l - 1
            while k > 0 and rows[k]["op"] not in ("new", "qnew"):
                k -= 1
            part = "queue" if line["op"].startswith("q") else "loop"
            v.violation("eventloop:%s:%s" % (part, line["op"]), "real %s disagrees with the FIFO/dispatch rules at line %d (%s); sequence starts at line %d" % (
                "ring buffer" if part == "queue" else "EventLoop", l, str(line)[:300], k + 1), {"line": l, "sequence": rows[k:l], "harness": "hsverif c14 -seed %d" % seed})
        elif rt.status != "ok":
            raise vlib.InfraError("trace check: %r" % rt)
        elif rt.distinct != len(rows) + 1:
            raise vlib.InfraError("trace not fully consumed (%d states, %d lines)" % (rt.distinct, len(rows)))
        # concurrent producers under the race detector
        trc = os.path.join(d, "conc.ndjson")
        p = vlib.run_harness(["c14conc", "-out", trc, "-seed", seed, "-runs", 40 if tier == "quick" else 1500], timeout=3000, race=True, check=False)
        races = 0
        if "DATA RACE" in p.stderr:
            races = p.stderr.count("DATA RACE")
            v.violation("eventloop:race", "race detector reports a data race with concurrent AddEvent", {"stderr": p.stderr[:6000]})
        elif p.returncode != 0:
            raise vlib.InfraError("c14conc failed: %s" % p.stderr[-3000:])
        crow = vlib.read_ndjson(trc) if os.path.exists(trc) else []
        rc_ = None
        if crow:
            os.replace(trc, tr)
            rc_ = vlib.tlc("Trace_C14c", cwd=d, workers=1, timeout=3000, heap="12g")
            if rc_.status == "violation":
                l = vlib.last_l(rc_)
                v.violation("eventloop:concurrent", "events added concurrently were lost, duplicated or reordered (run %d)" % l, {"run": crow[l - 1]})
            elif rc_.status != "ok":
                raise vlib.InfraError("concurrent trace check: %r" % rc_)
    rc = v.finish()
    ops = {}
    for x in rows:
        ops[x["op"]] = ops.get(x["op"], 0) + 1
    overflow = sum(1 for x in rows if x["op"] in ("qpush", "add") and x["dropped"])
    delayed = sum(1 for x in rows if x["op"] == "tick" and x["ran"] and len(x["inv"]) > 0)
    interleaved = 0
    for c in crow:
        ps = [h[0] for h in c["handled"]]
        interleaved += 1 if any(ps[i] != ps[i + 1] and ps[i] in ps[i + 1:] for i in range(len(ps) - 1)) else 0
    vlib.write_evidence(PROP, tier, seed, "model_checking", {
        "states": r.distinct + rt.distinct + (rc_.distinct if rc_ else 0), "transitions": r.generated + rt.generated,
        "traces_validated_against_impl": ops.get("qnew", 0) + ops.get("new", 0) + len(crow),
        "samples": [rows[1], next(x for x in rows if x["op"] == "tick" and x["inv"]), {k: crow[0][k] for k in ("k", "m", "handled")} if crow else {}],
        "evaluations": len(rows) + len(crow), "distinct_nontrivial": ops.get("qnew", 0) + ops.get("new", 0),
        "rule": "queue: every push/pop sequence of the tier's depth on capacities 1..4 plus random ones (cap <= 6); loop: seeded register/unregister/add/defer/tick "
                "sequences (capacities 1,2,3,8,100; priority and run-in-AddEvent handlers, three event types); concurrent: K producers x M events with the loop running, "
                "race detector on. distinct = operation sequences",
        "ops": ops, "overflow_drops_observed": overflow, "dispatching_ticks": delayed, "concurrent_runs": len(crow),
        "concurrent_runs_with_interleaved_producers": interleaved, "race_reports": races,
        "conformance": "ok" if not drift else "drift at line %d" % drift,
        "model": {"module": "MC_EventQueue", "states": r.distinct, "bounds": "cap 1..4, 9 pushes"},
        "checker_cmd": rt.cmd,
    }, time.time() - t0, violations=len(v.violations),
        assumptions=["handlers do not register/unregister or add events from inside a dispatch in these drivers (nested AddEvent is exercised by the protocol harness)",
                     "a data race reported by the Go race detector inside core/eventloop is counted as a violation (the one oracle that is not TLC)"])
    return rc


def replay(path, seed):
    return run("quick", seed)
