"""C15 -- command batching is FIFO, full-sized and duplicate-free."""
import os
import time

import vlib

PROP = "C15"


def run(tier, seed):
    t0 = time.time()
    v = vlib.Verdict(PROP)
    with vlib.scratch(PROP) as d:
        r = vlib.tlc("MC_CmdCache", cwd=d, workers=8, timeout=900)
        if r.status != "ok":
            raise vlib.InfraError("MC_CmdCache: %r\n%s" % (r, r.out[-1500:]))
        tr = os.path.join(d, "trace.ndjson")
        args = ["c15", "-out", tr, "-seed", seed] + (["-seqs", 120, "-len", 30] if tier == "quick" else ["-seqs", 2500, "-len", 40])
        vlib.run_harness(args, timeout=3000)
        rows = vlib.read_ndjson(tr)
        trc = os.path.join(d, "conc.ndjson")
        p = vlib.run_harness(["c15conc", "-out", trc, "-seed", seed, "-runs", 60 if tier == "quick" else 3000], timeout=3000, race=True, check=False)
        races = p.stderr.count("DATA RACE")
        if races:
            v.violation("cmdcache:race", "race detector reports a data race in the command cache", {"stderr": p.stderr[:6000]})
        elif p.returncode != 0:
            raise vlib.InfraError("c15conc failed: %s" % p.stderr[-3000:])
        crow = vlib.read_ndjson(trc) if os.path.exists(trc) else []
        rows = rows + crow
        vlib.write_ndjson(tr, rows)
        rt = vlib.tlc("Trace_C15", cwd=d, workers=1, timeout=3000, heap="12g")
        drift = None
        if rt.status == "violation" and rt.violated == "ConformsToModel":
            drift = vlib.last_l(rt)
            v.warn("conformance drift at line %d: %s" % (drift, str(rows[drift - 1])[:300]))
            rt = vlib.tlc("Trace_C15", cfg="Trace_C15_A.cfg", cwd=d, workers=1, timeout=3000, heap="12g")
        if rt.status == "violation":
            l = vlib.last_l(rt)
            line = rows[l - 1]
            k = l - 1
            while k > 0 and rows[k]["op"] not in ("new", "conc"):
                k -= 1
            if line["op"] == "conc":
                v.violation("cmdcache:concurrent", "concurrent producers/consumers: a request hung, or a batch was short, duplicated or out of order: %s" % str(line)[:500], {"run": line})
            else:
                v.violation("cmdcache:get", "Get %s although the oldest fresh commands say otherwise (line %d): %s" % (
                    "returned %s" % line["batch"] if line["returned"] else "blocked", l, line), {"sequence": rows[k:l], "harness": "hsverif c15 -seed %d" % seed})
        elif rt.status != "ok":
            raise vlib.InfraError("trace check: %r" % rt)
        elif rt.distinct != len(rows) + 1:
            raise vlib.InfraError("trace not fully consumed")
    rc = v.finish()
    ops = {}
    for x in rows:
        ops[x["op"]] = ops.get(x["op"], 0) + 1
    blocked = sum(1 for x in rows if x["op"] == "get" and not x["returned"])
    vlib.write_evidence(PROP, tier, seed, "model_checking", {
        "states": r.distinct + rt.distinct, "transitions": r.generated + rt.generated,
        "traces_validated_against_impl": ops.get("new", 0) + ops.get("conc", 0),
        "samples": [x for x in rows[:30] if x["op"] in ("get", "mark")][:3] + ([{k: crow[0][k] for k in ("bs", "k", "m", "consumers", "hang")}] if crow else []),
        "evaluations": len(rows), "distinct_nontrivial": ops.get("new", 0) + ops.get("conc", 0),
        "rule": "seeded sequences of add (1..3 clients, in-order, interleaved) / mark-proposed (handed-out batches and foreign commands) / get on the real CommandCache, batch "
                "sizes 1..3, a Get that does not return within 25 ms is cancelled and logged as blocked; concurrent runs: 1..4 producers, 1..2 consumers under the race detector",
        "ops": ops, "gets_blocked": blocked, "gets_returned": ops.get("get", 0) - blocked, "race_reports": races,
        "conformance": "ok" if not drift else "drift at line %d" % drift,
        "model": {"module": "MC_CmdCache", "states": r.distinct, "bounds": "2 clients x 2 seqs, batch size 2, 2 Get processes, all interleavings at lock granularity"},
        "checker_cmd": rt.cmd,
    }, time.time() - t0, violations=len(v.violations),
        assumptions=["each (client, sequence number) is added once and clients send in order (DESIGN 6/C15)",
                     "a sequential Get that can return does so within 25 ms"])
    return rc


def replay(path, seed):
    return run("quick", seed)
