"""C12 -- wire encoding preserves the meaning of every protocol message."""
import os
import time

import vlib

PROP = "C12"


def run(tier, seed):
    t0 = time.time()
    v = vlib.Verdict(PROP)
    with vlib.scratch(PROP) as d:
        r = vlib.tlc("MC_Wire", cwd=d, workers=2, timeout=600)          # TLC enumerates the grammar
        if r.status != "ok" or not os.path.exists(os.path.join(d, "wire_objects.ndjson")):
            raise vlib.InfraError("MC_Wire did not write the object grammar: %r" % r)
        ncases = len(vlib.read_ndjson(os.path.join(d, "wire_objects.ndjson")))
        tr = os.path.join(d, "trace.ndjson")
        vlib.run_harness(["c12", "-out", tr, "-cases", os.path.join(d, "wire_objects.ndjson")], timeout=3000)
        rows = vlib.read_ndjson(tr)
        rt = vlib.tlc("Trace_C12", cwd=d, workers=1, timeout=3000, heap="12g")
        if rt.status == "violation":
            l = vlib.last_l(rt)
            if rt.violated == "Coverage":
                raise vlib.InfraError("the harness did not instantiate every object of the grammar")
            line = rows[l - 1]
            diff = {k: (line["before"][k], line["after"].get(k)) for k in line.get("before", {}) if line["before"][k] != line["after"].get(k)} if line["kind"] != "fetch" else line
            v.violation("wire:%s" % line["kind"], "%s (%s, %s) changes across ToProto/Marshal/Unmarshal/FromProto: %s" % (
                line["kind"], line["scheme"], line.get("case"), str(diff)[:700]), {"case": line})
        elif rt.status != "ok":
            raise vlib.InfraError("trace check: %r" % rt)
    rc = v.finish()
    kinds = {}
    for x in rows:
        kinds[x["kind"]] = kinds.get(x["kind"], 0) + 1
    vlib.write_evidence(PROP, tier, seed, "model_checking", {
        "states": rt.distinct, "transitions": rt.generated, "traces_validated_against_impl": len(rows),
        "samples": [rows[0], next(x for x in rows if x["kind"] == "block")],
        "evaluations": len(rows), "distinct_nontrivial": len(rows), "exhaustive": True,
        "rule": "every object shape of the TLA+ grammar Wire!Objects (%d shapes: QC, TC, vote, aggregate QC incl. distinct QCs for one block, block, proposal, sync info, timeout "
                "message; optional parts present/absent; 1/quorum/all signers; empty/one/many commands; extreme views, proposer ids and timestamps) x ECDSA, EdDSA, BLS12 (4 replicas) and BLS12 in a configuration of 67 replicas whose signer classes take the highest ids, built "
                "with real keys, sent through ToProto/Marshal/Unmarshal/FromProto; projection = hash, bytes-to-sign, participants, fields, verdict of another replica's Authority; "
                "plus votes, a QC and a TC per scheme decoded by concurrent callers (result = result alone), plus the real RequestBlockQF on honest and lying replies" % ncases,
        "by_kind": kinds, "grammar_shapes": ncases, "checker_cmd": rt.cmd,
    }, time.time() - t0, violations=len(v.violations),
        assumptions=["here TLC enumerates the input grammar and compares projections; the oracle is equality, not a deeper model (DESIGN 6/C12)",
                     "protobuf's own codec below convert.go is trusted"])
    return rc


def replay(path, seed):
    return run("quick", seed)
