"""C10 -- no message from a peer can crash a replica or disturb its state."""
import os
import time

import vlib

PROP = "C10"


def site(line):
    s = line["panic"].split(" @ ")[-1].split()
    return s[0] if s else "unknown"


def run(tier, seed):
    t0 = time.time()
    v = vlib.Verdict(PROP)
    with vlib.scratch(PROP) as d:
        r = vlib.tlc("MC_Wire", cwd=d, workers=2, timeout=600)
        cases = os.path.join(d, "wire_messages.ndjson")
        if r.status != "ok" or not os.path.exists(cases):
            raise vlib.InfraError("MC_Wire did not write the message grammar: %r" % r)
        ncases = sum(1 for _ in open(cases))
        tr = os.path.join(d, "trace.ndjson")
        args = ["c10", "-out", tr, "-cases", cases, "-seed", seed]
        if tier == "quick":
            args += ["-sample", 4800, "-configs", "ecdsa:0:1,eddsa:1:1,bls12:1:0"]
        else:
            args += ["-sample", 0, "-configs", "ecdsa:0:0,ecdsa:1:1,eddsa:1:1,eddsa:0:0,bls12:1:0,bls12:0:1"]
        vlib.run_harness(args, timeout=6000)
        rows = vlib.read_ndjson(tr)
        allrows = rows
        states = 0
        cmd = ""
        for _ in range(15):
            vlib.write_ndjson(tr, rows)
            rt = vlib.tlc("Trace_C10", cwd=d, workers=1, timeout=3000, heap="16g")
            states += rt.distinct
            cmd = rt.cmd
            if rt.status == "ok":
                break
            if rt.status != "violation":
                raise vlib.InfraError("trace check: %r" % rt)
            l = vlib.last_l(rt)
            line = rows[l - 1]
            if rt.violated == "FlagIsGrammar":
                raise vlib.InfraError("harness flag differs from Wire!Verifies at line %d" % l)
            if rt.violated == "NoPanic":
                key = "panic:%s:%s" % (line["rpc"], site(line))
                v.violation(key, "a %s message crashes the replica (%s, cache %s, state %s): %s; message shape %s" % (
                    line["rpc"], line["scheme"], "on" if line["cache"] else "off", line["state"], line["panic"][:300], line["case"]), {"case": line})
                rows = [x for x in rows if not (x["panic"] and "panic:%s:%s" % (x["rpc"], site(x)) == key)]
            else:
                key = "disturbed:%s" % line["rpc"]
                v.violation(key, "a %s message in which nothing verifies changed the replica's protocol state: %s -> %s; shape %s" % (
                    line["rpc"], line["pre"], line["post"], line["case"]), {"case": line})
                rows = [x for x in rows if not (x["rpc"] == line["rpc"] and x["changed"] and not x["verifies"])]
    rc = v.finish()
    rows = allrows
    by = {}
    effect = {}
    for x in rows:
        by[x["rpc"]] = by.get(x["rpc"], 0) + 1
        e = effect.setdefault(x["rpc"], {"verify": 0, "verify_and_change_state": 0})
        e["verify"] += 1 if x["verifies"] else 0
        e["verify_and_change_state"] += 1 if (x["verifies"] and x["changed"]) else 0
        if x["rpc"] == "contribution":
            e["merged_into_the_aggregate"] = e.get("merged_into_the_aggregate", 0) + (1 if x.get("kauriAgg", 0) > 1 else 0)
    # non-vacuity: every handler must have been reached by messages it acts on (a driver that never gets the replica into the
    # state in which a message matters exercises nothing; that happened to the Kauri part once)
    for rpc, need in (("newview", "verify_and_change_state"), ("timeout", "verify_and_change_state"), ("propose", "verify_and_change_state"),
                      ("contribution", "merged_into_the_aggregate")):
        if rpc in effect and not effect[rpc].get(need):
            raise vlib.InfraError("C10 is vacuous for %s messages: none of %d had an effect (%s = 0)" % (rpc, by.get(rpc, 0), need))
    vlib.write_evidence(PROP, tier, seed, "model_checking", {
        "states": states, "transitions": states, "traces_validated_against_impl": len(rows),
        "samples": [{k: rows[i][k] for k in ("rpc", "scheme", "cache", "state", "case", "verifies", "panic", "changed")} for i in (0, len(rows) // 2, len(rows) - 1)],
        "evaluations": len(rows), "distinct_nontrivial": len({(x["id"], x["scheme"], x["cache"], x["state"]) for x in rows}),
        "exhaustive": tier != "quick",
        "rule": "messages of the TLA+ wire grammar Wire!Messages (%d shapes: proposals, votes, timeouts, new-views, block fetches, Kauri contributions; every optional field "
                "absent/present, 12 signature variants, hash and view classes, aggregate-QC shapes), %s, instantiated as real protobuf messages and handed to the real service "
                "handlers of a running replica in three states (fresh, mid-run, after timeouts), per scheme / cache / timeout-rule configuration; panics recovered and located" % (
                    ncases, "stratified sample" if tier == "quick" else "all of them"),
        "by_rpc": by, "effect_by_rpc": effect, "grammar_shapes": ncases, "messages_that_verify": sum(1 for x in rows if x["verifies"]),
        "state_changes_observed": sum(1 for x in rows if x["changed"]), "panics": sum(1 for x in rows if x["panic"]), "checker_cmd": cmd,
    }, time.time() - t0, violations=len(v.violations),
        assumptions=["the sender id is supplied by the harness as the transport would (peer metadata)", "protobuf decoding below convert.go is trusted"])
    return rc


def replay(path, seed):
    return run("quick", seed)
