#!/bin/bash
# confirm_seed.sh <seed-id> <agent-worktree>
# Confirms a seeded change in a fresh scratch worktree of /repo HEAD: applies, builds, passes the
# existing suite, demo fails with the change and passes without. Stores it under /verif/seeded/<id>/.
set -u
ID=$1; SRC=$2/SEEDED
export GOFLAGS=-mod=mod GOPROXY=off
WT=/tmp/confirm-$ID
rm -rf $WT; git -C /repo worktree prune; git -C /repo worktree add -q --detach $WT HEAD || exit 2
cd $WT
DEMO_PATH=$(cat $SRC/demo_path.txt | tr -d '[:space:]')
DEMO_FILE=$(ls $SRC/*_test.go | head -1)
LOG=/tmp/confirm-$ID.log; : > $LOG
res() { echo "$1" | tee -a $LOG; }
if ! git apply --check $SRC/patch.diff 2>>$LOG; then res "APPLY-FAILED"; git -C /repo worktree remove --force $WT; exit 1; fi
git apply $SRC/patch.diff
if ! go build ./... >>$LOG 2>&1; then res "BUILD-FAILED"; git -C /repo worktree remove --force $WT; exit 1; fi
if go test -vet=off -count=1 -timeout 25m ./... >>$LOG 2>&1; then res "SUITE-PASSES-WITH-CHANGE"; else res "SUITE-FAILS-WITH-CHANGE"; fi
mkdir -p $(dirname $DEMO_PATH); cp $DEMO_FILE $DEMO_PATH
PKG=./$(dirname $DEMO_PATH)
if go test -vet=off -count=1 $PKG >>$LOG 2>&1; then res "DEMO-PASSES-WITH-CHANGE(bad)"; else res "DEMO-FAILS-WITH-CHANGE(good)"; fi
git apply -R $SRC/patch.diff
if go test -vet=off -count=1 $PKG >>$LOG 2>&1; then res "DEMO-PASSES-WITHOUT-CHANGE(good)"; else res "DEMO-FAILS-WITHOUT-CHANGE(bad)"; fi
mkdir -p /verif/seeded/$ID
cp $SRC/patch.diff $SRC/meta.json $SRC/demo_path.txt $DEMO_FILE /verif/seeded/$ID/
grep -E "^(APPLY|BUILD|SUITE|DEMO)" $LOG > /verif/seeded/$ID/confirm.txt
cd /; git -C /repo worktree remove --force $WT
cat /verif/seeded/$ID/confirm.txt
