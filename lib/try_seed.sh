#!/bin/bash
# try_seed.sh <seed-id> <PROP> [tier]  -- runs the check of PROP against a scratch worktree of /repo HEAD with
# /verif/seeded/<id>/patch.diff applied (never touches /repo itself); evidence and replays of the trial go to /tmp.
ID=$1; PROP=$2; TIER=${3:-quick}
WT=/tmp/seedrepo-$ID-$PROP
rm -rf $WT; git -C /repo worktree prune
git -C /repo worktree add -q --detach $WT HEAD || { echo "worktree failed"; exit 2; }
( cd $WT && git apply /verif/seeded/$ID/patch.diff ) || { echo "apply failed"; git -C /repo worktree remove --force $WT; exit 2; }
mkdir -p /tmp/seed-evidence /tmp/seed-replays
cd /verif && VERIF_REPO=$WT VERIF_EVIDENCE_DIR=/tmp/seed-evidence VERIF_REPLAYS_DIR=/tmp/seed-replays ./check $PROP --tier $TIER > /tmp/try-$ID.out 2>&1; RC=$?
git -C /repo worktree remove --force $WT
echo "seed=$ID prop=$PROP tier=$TIER rc=$RC"; grep -E "VIOLATION|KNOWN|INFRA" /tmp/try-$ID.out | head -5
exit $RC
