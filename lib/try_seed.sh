#!/bin/bash
# try_seed.sh <seed-id> <PROP> [tier]  -- applies /verif/seeded/<id>/patch.diff to /repo, runs the check, reverts.
ID=$1; PROP=$2; TIER=${3:-quick}
cd /repo && git apply /verif/seeded/$ID/patch.diff || { echo "apply failed"; exit 2; }
cd /verif && ./check $PROP --tier $TIER > /tmp/try-$ID.out 2>&1; RC=$?
git -C /repo checkout -- . 
echo "seed=$ID prop=$PROP tier=$TIER rc=$RC"; grep -E "VIOLATION|KNOWN|INFRA" /tmp/try-$ID.out | head -5
exit $RC
