#!/bin/bash
# run_all.sh <tier> [lanes]  -- runs every registered check of the given tier (seed 1) against /repo, in parallel lanes;
# results (one line per check) go to /verif/.scratch/run_all-<tier>.results
TIER=${1:-quick}; LANES=${2:-3}
cd /verif; mkdir -p .scratch; RES=.scratch/run_all-$TIER.results; : > $RES
ALL=${PROPS:-"C05 C01 C03 C07 C20 C04 C06 C18 C17 C12 C15 C10 C13 C19 C11 C09 C16 C14 C02 C08"}
i=0
for l in $(seq 1 $LANES); do LIST[$l]=""; done
for p in $ALL; do l=$(( i % LANES + 1 )); LIST[$l]="${LIST[$l]} $p"; i=$((i+1)); done
for l in $(seq 1 $LANES); do
  ( for p in ${LIST[$l]}; do
      VERIF_SEED=1 ./check $p --tier $TIER > .scratch/run_all-$TIER-$p.out 2>&1; rc=$?
      echo "$p tier=$TIER rc=$rc viol=$(grep -c '^VIOLATION' .scratch/run_all-$TIER-$p.out) $(grep -o 'wall=[0-9.]*s' .scratch/run_all-$TIER-$p.out | tail -1)" >> $RES
    done ) &
done
wait
echo ALLDONE >> $RES
