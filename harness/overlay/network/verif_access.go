//go:build verif

package network

import "github.com/relab/hotstuff/internal/proto/hotstuffpb"

// VerifRequestBlockQF applies the real quorum function of the block-fetch call to a set of replies.
func VerifRequestBlockQF(in *hotstuffpb.BlockHash, replies map[uint32]*hotstuffpb.Block) (*hotstuffpb.Block, bool) {
	return qspec{}.RequestBlockQF(in, replies)
}
