//go:build verif

package blockchain

import "github.com/relab/hotstuff"

// VerifStored returns the hashes under which blocks are stored, with the hash of the block found there.
func (chain *Blockchain) VerifStored() map[hotstuff.Hash]hotstuff.Hash {
	chain.mut.Lock()
	defer chain.mut.Unlock()
	out := make(map[hotstuff.Hash]hotstuff.Hash, len(chain.blocks))
	for h, b := range chain.blocks {
		out[h] = b.Hash()
	}
	return out
}
