//go:build verif

package cert

// Read-only accessors for the verification harness (injected with -overlay; not part of the repository).

// VerifCacheOf returns the signature cache wrapped by the authority, if any.
func VerifCacheOf(a *Authority) *Cache {
	c, _ := a.Base.(*Cache)
	return c
}

// VerifKeys returns the cache keys in LRU order (most recently used first).
func (cache *Cache) VerifKeys() []string {
	cache.mut.Lock()
	defer cache.mut.Unlock()
	var out []string
	for e := cache.accessOrder.Front(); e != nil; e = e.Next() {
		out = append(out, e.Value.(string))
	}
	return out
}

// VerifCapacity returns the configured capacity.
func (cache *Cache) VerifCapacity() int { return cache.capacity }
