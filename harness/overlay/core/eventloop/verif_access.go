//go:build verif

package eventloop

// Accessors for the verification harness (injected with -overlay; not part of the repository).

// VerifQueue exposes the unexported ring buffer.
type VerifQueue struct{ q queue }

// VerifNewQueue creates a queue with the given capacity.
func VerifNewQueue(capacity uint) *VerifQueue { return &VerifQueue{q: newQueue(capacity)} }

// Push pushes an entry and returns what the queue reports as dropped.
func (v *VerifQueue) Push(e any) any { return v.q.push(e) }

// Pop pops the oldest entry.
func (v *VerifQueue) Pop() (any, bool) { return v.q.pop() }

// Len returns the number of entries.
func (v *VerifQueue) Len() int { return v.q.len() }

// VerifQueueLen returns the number of pending events of the event loop.
func (el *EventLoop) VerifQueueLen() int { return el.eventQ.len() }
