//go:build verif

package twins

import "github.com/relab/hotstuff"

// Accessors for the verification harness (injected with -overlay; not part of the repository).

// VerifCheckCommits runs the real checkCommits on a network that consists only of commit logs.
// logs maps a replica id to the commit logs of its nodes (one log for a normal replica, two for twins).
func VerifCheckCommits(logs map[hotstuff.ID][][]*hotstuff.Block) (safe bool, commits int) {
	n := &Network{replicas: make(map[hotstuff.ID][]*node), nodes: make(map[NodeID]*node)}
	for id, nodeLogs := range logs {
		for i, l := range nodeLogs {
			twin := uint32(0)
			if len(nodeLogs) > 1 {
				twin = uint32(i + 1)
			}
			nd := &node{id: NodeID{ReplicaID: id, TwinID: twin}, executedBlocks: l}
			n.replicas[id] = append(n.replicas[id], nd)
			n.nodes[nd.id] = nd
		}
	}
	return checkCommits(n)
}
