//go:build verif

package votingmachine

import "github.com/relab/hotstuff"

// VerifVotes returns, per block hash, the signers of the verified votes currently held.
func (vm *VotingMachine) VerifVotes() map[hotstuff.Hash][]hotstuff.ID {
	vm.mut.Lock()
	defer vm.mut.Unlock()
	out := make(map[hotstuff.Hash][]hotstuff.ID, len(vm.verifiedVotes))
	for h, vs := range vm.verifiedVotes {
		for _, v := range vs {
			out[h] = append(out[h], v.Signer())
		}
	}
	return out
}
