//go:build verif

package consensus

import "github.com/relab/hotstuff"

// VerifLastVotedView returns the voter's lastVotedView.
func (v *Voter) VerifLastVotedView() hotstuff.View { return v.lastVotedView }
