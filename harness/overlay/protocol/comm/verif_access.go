//go:build verif

package comm

import "github.com/relab/hotstuff"

// VerifTimerExpired builds the event that the aggregation wait timer adds to the event loop.
func VerifTimerExpired(view hotstuff.View) any { return WaitTimerExpiredEvent{currentView: view} }

// VerifAgg returns the participants of the current partial aggregate (nil when there is none).
func (k *Kauri) VerifAgg() []hotstuff.ID {
	if k.aggContrib == nil {
		return nil
	}
	var out []hotstuff.ID
	k.aggContrib.Participants().ForEach(func(id hotstuff.ID) { out = append(out, id) })
	return out
}

// VerifView returns the view of the aggregation round Kauri is in.
func (k *Kauri) VerifView() hotstuff.View { return k.currentView }

// VerifSenders returns the ids whose contributions were merged in the current aggregation round.
func (k *Kauri) VerifSenders() []hotstuff.ID { return append([]hotstuff.ID{}, k.senders...) }
