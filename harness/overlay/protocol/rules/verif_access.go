//go:build verif

package rules

import "github.com/relab/hotstuff"

// VerifLock returns the block the ruleset is locked on.
func (hs *ChainedHotStuff) VerifLock() *hotstuff.Block { return hs.bLock }

// VerifLock returns the block the ruleset is locked on.
func (hs *SimpleHotStuff) VerifLock() *hotstuff.Block { return hs.locked }
