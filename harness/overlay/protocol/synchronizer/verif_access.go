//go:build verif

package synchronizer

import "github.com/relab/hotstuff"

// VerifCollected returns (sender, view) of the timeout messages currently held by the collector.
func (s *Synchronizer) VerifCollected() [][2]uint64 {
	out := [][2]uint64{}
	for _, t := range s.timeouts.timeouts {
		out = append(out, [2]uint64{uint64(t.ID), uint64(t.View)})
	}
	return out
}

// VerifLastTimeoutView returns the view of the remembered own timeout message (0 if none).
func (s *Synchronizer) VerifLastTimeoutView() hotstuff.View {
	if s.lastTimeout == nil {
		return 0
	}
	return s.lastTimeout.View
}
