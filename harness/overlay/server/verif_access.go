//go:build verif

package server

import "github.com/relab/hotstuff/internal/proto/clientpb"

// VerifAwait registers a waiting client for the command id, as ExecCommand does, and returns the
// channel on which the outcome is delivered (buffered, so that a second outcome would be observable
// instead of blocking the event loop).
func (srv *ClientIO) VerifAwait(id clientpb.MessageID) <-chan error {
	ch := make(chan error, 4)
	srv.mut.Lock()
	srv.awaitingCmds[id] = ch
	srv.mut.Unlock()
	return ch
}

// VerifService returns the Consensus service implementation of the server (the gorums handlers).
func VerifService(srv *Server) *serviceImpl { return &serviceImpl{srv} }
