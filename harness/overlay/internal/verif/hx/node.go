//go:build verif

package hx

import (
	"context"
	"fmt"
	"os"
	"runtime"
	"sort"
	"sync"
	"time"
	"unsafe"

	"github.com/relab/gorums"
	"github.com/relab/hotstuff"
	"github.com/relab/hotstuff/core"
	"github.com/relab/hotstuff/core/eventloop"
	"github.com/relab/hotstuff/internal/proto/clientpb"
	"github.com/relab/hotstuff/internal/tree"
	"github.com/relab/hotstuff/protocol"
	"github.com/relab/hotstuff/protocol/comm"
	"github.com/relab/hotstuff/protocol/consensus"
	"github.com/relab/hotstuff/protocol/leaderrotation"
	"github.com/relab/hotstuff/protocol/rules"
	"github.com/relab/hotstuff/protocol/synchronizer"
	"github.com/relab/hotstuff/protocol/votingmachine"
	"github.com/relab/hotstuff/security/blockchain"
	"github.com/relab/hotstuff/security/cert"
	"github.com/relab/hotstuff/security/crypto"
	"github.com/relab/hotstuff/server"
)

// OutMsg is a message that left a node through core.Sender. To == 0 means broadcast.
type OutMsg struct {
	From hotstuff.ID
	To   hotstuff.ID
	Msg  any // hotstuff.ProposeMsg | hotstuff.VoteMsg | hotstuff.TimeoutMsg | hotstuff.NewViewMsg
}

// SignRec is one call of a node's signing primitive.
type SignRec struct {
	By  hotstuff.ID
	Msg []byte
}

// recBase records every Sign of the real scheme.
type recBase struct {
	crypto.Base
	id   hotstuff.ID
	sink *[]SignRec
	gate *Gate
}

// Verify is gated when it runs on a goroutine other than the driver's (asynchronous vote verification):
// the call parks until the scheduler releases it, which makes the completion order a scheduler decision.
func (r *recBase) Verify(sig hotstuff.QuorumSignature, m []byte) error {
	if r.gate != nil && GoroutineID() != r.gate.Main {
		tok := make(chan struct{})
		r.gate.mu.Lock()
		r.gate.Pending = append(r.gate.Pending, tok)
		r.gate.mu.Unlock()
		<-tok
		if os.Getenv("HX_DEBUG") != "" {
			fmt.Fprintf(os.Stderr, "gate: released %v\n", IDs(sig.Participants()))
		}
		err := r.Base.Verify(sig, m)
		r.gate.mu.Lock()
		r.gate.Results = append(r.gate.Results, fmt.Sprintf("%v:%v", IDs(sig.Participants()), err))
		r.gate.Completed++
		r.gate.mu.Unlock()
		return err
	}
	return r.Base.Verify(sig, m)
}

// Gate holds the parked asynchronous verifications of one node.
type Gate struct {
	Main      uint64
	mu        sync.Mutex
	Pending   []chan struct{}
	Results   []string // outcome of every gated verification, in completion order (diagnostics)
	Completed int      // number of gated verifications whose signature check has returned
}

// ReleaseAndWait lets the i-th parked verification run and waits until its goroutine has finished.
func (g *Gate) ReleaseAndWait(i int) {
	g.mu.Lock()
	c0 := g.Completed
	g.mu.Unlock()
	before := runtime.NumGoroutine()
	g.Release(i)
	deadline := time.Now().Add(2 * time.Second)
	for time.Now().Before(deadline) {
		g.mu.Lock()
		done := g.Completed > c0
		g.mu.Unlock()
		if done {
			break
		}
		runtime.Gosched()
	}
	// the goroutine still has to take the collector's lock, store the vote and possibly emit the certificate
	deadline = time.Now().Add(200 * time.Millisecond)
	for time.Now().Before(deadline) && runtime.NumGoroutine() >= before {
		runtime.Gosched()
		time.Sleep(20 * time.Microsecond)
	}
	time.Sleep(100 * time.Microsecond)
}

// WaitParked waits (briefly) until at least k verifications are parked.
func (g *Gate) WaitParked(k int) {
	deadline := time.Now().Add(5 * time.Millisecond)
	for g.Count() < k && time.Now().Before(deadline) {
		runtime.Gosched()
	}
}

type _unused struct{}

// Count returns the number of parked verifications.
func (g *Gate) Count() int {
	g.mu.Lock()
	defer g.mu.Unlock()
	return len(g.Pending)
}

// Release lets the i-th parked verification run.
func (g *Gate) Release(i int) {
	g.mu.Lock()
	tok := g.Pending[i]
	g.Pending = append(g.Pending[:i], g.Pending[i+1:]...)
	g.mu.Unlock()
	close(tok)
}

// GoroutineID returns the id of the calling goroutine.
func GoroutineID() uint64 {
	var buf [64]byte
	n := runtime.Stack(buf[:], false)
	// "goroutine 123 [running]:"
	var id uint64
	for _, c := range buf[len("goroutine "):n] {
		if c < '0' || c > '9' {
			break
		}
		id = id*10 + uint64(c-'0')
	}
	return id
}

func (r *recBase) Sign(m []byte) (hotstuff.QuorumSignature, error) {
	*r.sink = append(*r.sink, SignRec{By: r.id, Msg: append([]byte{}, m...)})
	return r.Base.Sign(m)
}

// capSender captures everything a node sends; block fetches are answered by Fetch.
type capSender struct {
	node *Node
}

func (s *capSender) NewView(id hotstuff.ID, si hotstuff.SyncInfo) error {
	if s.node.FailSend != nil && s.node.FailSend("newview") {
		return fmt.Errorf("send to %d failed (injected)", id) // the connection to the peer is down: nothing leaves the node
	}
	s.node.Out = append(s.node.Out, OutMsg{From: s.node.ID, To: id, Msg: hotstuff.NewViewMsg{ID: s.node.ID, SyncInfo: si, FromNetwork: true}})
	return nil
}
func (s *capSender) Vote(id hotstuff.ID, pc hotstuff.PartialCert) error {
	if s.node.FailSend != nil && s.node.FailSend("vote") {
		return fmt.Errorf("send to %d failed (injected)", id)
	}
	s.node.Out = append(s.node.Out, OutMsg{From: s.node.ID, To: id, Msg: hotstuff.VoteMsg{ID: s.node.ID, PartialCert: pc}})
	return nil
}
func (s *capSender) Timeout(m hotstuff.TimeoutMsg) {
	s.node.Out = append(s.node.Out, OutMsg{From: s.node.ID, To: 0, Msg: m})
}
func (s *capSender) Propose(p *hotstuff.ProposeMsg) {
	s.node.Out = append(s.node.Out, OutMsg{From: s.node.ID, To: 0, Msg: *p})
}
func (s *capSender) RequestBlock(_ context.Context, h hotstuff.Hash) (*hotstuff.Block, bool) {
	if s.node.Fetch == nil {
		return nil, false
	}
	return s.node.Fetch(s.node.ID, h)
}
func (s *capSender) Sub(ids []hotstuff.ID) (core.Sender, error) {
	return &subSender{capSender: s, ids: ids}, nil
}

// ContribOut is a partial aggregate handed to core.KauriSender.SendContributionToParent.
type ContribOut struct {
	View hotstuff.View
	Sig  hotstuff.QuorumSignature
}

// SendContributionToParent captures the contribution.
func (s *capSender) SendContributionToParent(view hotstuff.View, sig hotstuff.QuorumSignature) {
	s.node.Out = append(s.node.Out, OutMsg{From: s.node.ID, To: 0, Msg: ContribOut{View: view, Sig: sig}})
}

// subSender is a sender restricted to a sub-configuration (Kauri children).
type subSender struct {
	*capSender
	ids []hotstuff.ID
}

func (s *subSender) Propose(p *hotstuff.ProposeMsg) {
	for _, id := range s.ids {
		s.node.Out = append(s.node.Out, OutMsg{From: s.node.ID, To: id, Msg: *p})
	}
}

// recDuration: view timers never fire by themselves (the scheduler injects TimeoutEvents), but every call the synchronizer
// makes on its ViewDuration is recorded: Duration() is called by startTimeoutTimer only, i.e. it arms the view timer for the
// view the replica is in at that moment (TimerView); DurLog is the call sequence (D = Duration / timer armed, S = ViewStarted,
// K = ViewSucceeded, T = ViewTimeout).
type recDuration struct{ n *Node }

func (d recDuration) Duration() time.Duration {
	d.n.TimerView = int(d.n.VS.View())
	d.n.DurLog = append(d.n.DurLog, "D")
	return time.Hour
}
func (d recDuration) ViewStarted()   { d.n.DurLog = append(d.n.DurLog, "S") }
func (d recDuration) ViewSucceeded() { d.n.DurLog = append(d.n.DurLog, "K") }
func (d recDuration) ViewTimeout()   { d.n.DurLog = append(d.n.DurLog, "T") }

// Node is one real replica: every protocol component of relab/hotstuff wired as in twins/node.go.
type Node struct {
	ID           hotstuff.ID
	Cfg          *core.RuntimeConfig
	EL           *eventloop.EventLoop
	BC           *blockchain.Blockchain
	Auth         *cert.Authority
	VS           *protocol.ViewStates
	Rules        consensus.Ruleset
	VM           *votingmachine.VotingMachine
	Voter        *consensus.Voter
	Proposer     *consensus.Proposer
	Committer    *consensus.Committer
	Sync         *synchronizer.Synchronizer
	TimerView    int      // the view the view timer was armed for last (0: never armed)
	DurLog       []string // calls on the ViewDuration (see recDuration)
	Cache        *clientpb.CommandCache
	CIO          *server.ClientIO
	Await        map[clientpb.MessageID]<-chan error // outcome channels of waiting clients
	Outcomes     [][3]int64                          // (client, seq, 0 = success / 1 = error) in the order they were collected
	Watchdog     time.Duration                       // > 0: a step that does not return gets its view timer fired by the driver (see guarded)
	FailSend     func(kind string) bool              // when set and true: a unicast send (vote, new-view) fails with an error
	StarvedTotal int
	StarvedViews []int // views in which that happened since the driver last cleared it
	asyncMu      sync.Mutex
	asyncOut     [][3]int64 // outcomes of requests made through the real ExecCommand handler (SubmitReal), not yet collected
	Submitted    map[clientpb.MessageID]bool
	LR           leaderrotation.LeaderRotation
	Key          hotstuff.PrivateKey
	Gate         *Gate // set when NodeOpts.Async
	Kauri        *comm.Kauri

	Out    []OutMsg
	Signed []SignRec
	Fetch  func(by hotstuff.ID, h hotstuff.Hash) (*hotstuff.Block, bool)

	Commits     []*hotstuff.Block
	ViewChanges []hotstuff.ViewChangeEvent
	Executed    [][2]uint64 // (client, seq) in ExecuteEvent order
	Aborted     [][2]uint64
	cancel      context.CancelFunc
}

// NodeOpts configures NewNodes.
type NodeOpts struct {
	N         int
	Scheme    string
	Ruleset   string // chainedhotstuff | simplehotstuff | fasthotstuff
	Leader    func(cfg *core.RuntimeConfig) leaderrotation.LeaderRotation
	BatchSize uint32
	Opts      []core.RuntimeOption
	Keys      []hotstuff.PrivateKey
	QueueSize uint
	Async     bool                            // asynchronous vote verification, gated by the scheduler
	Kauri     func(id hotstuff.ID) *tree.Tree // when set, Kauri replaces the clique communication
}

// LockOf returns the locked block of a ruleset (nil for rulesets without a lock).
func LockOf(r consensus.Ruleset) *hotstuff.Block {
	switch x := r.(type) {
	case *rules.ChainedHotStuff:
		return x.VerifLock()
	case *rules.SimpleHotStuff:
		return x.VerifLock()
	}
	return nil
}

// NewNodes builds N real replicas that know each other's public keys.
func NewNodes(o NodeOpts) ([]*Node, error) {
	keys := o.Keys
	for len(keys) < o.N {
		k, err := GenKey(o.Scheme)
		if err != nil {
			return nil, err
		}
		keys = append(keys, k)
	}
	if o.QueueSize == 0 {
		o.QueueSize = 1000
	}
	opts := append([]core.RuntimeOption{}, o.Opts...)
	if !o.Async {
		opts = append(opts, core.WithSyncVerification())
	}
	if o.Ruleset == rules.NameFastHotStuff {
		opts = append(opts, core.WithAggregateQC())
	}
	nodes := make([]*Node, o.N)
	bases := make([]crypto.Base, o.N)
	for i := range nodes {
		n := &Node{ID: hotstuff.ID(i + 1), Key: keys[i]}
		nopts := opts
		if o.Kauri != nil {
			nopts = append(append([]core.RuntimeOption{}, opts...), core.WithKauriTree(o.Kauri(n.ID)))
		}
		n.Cfg = core.NewRuntimeConfig(n.ID, keys[i], nopts...)
		n.EL = eventloop.New(Quiet{}, o.QueueSize)
		var err error
		bases[i], err = crypto.New(n.Cfg, o.Scheme)
		if err != nil {
			return nil, err
		}
		nodes[i] = n
	}
	for _, n := range nodes {
		for _, t := range nodes {
			n.Cfg.AddReplica(&hotstuff.ReplicaInfo{ID: t.ID, PubKey: t.Key.Public(), Metadata: t.Cfg.ConnectionMetadata()})
		}
	}
	for i, n := range nodes {
		sender := &capSender{node: n}
		n.BC = blockchain.New(n.EL, Quiet{}, sender)
		rb := &recBase{Base: bases[i], id: n.ID, sink: &n.Signed}
		if o.Async {
			n.Gate = &Gate{Main: GoroutineID()}
			rb.gate = n.Gate
		}
		n.Auth = cert.NewAuthority(n.Cfg, n.BC, rb)
		var err error
		n.Rules, err = rules.New(Quiet{}, n.Cfg, n.BC, o.Ruleset)
		if err != nil {
			return nil, err
		}
		n.VS, err = protocol.NewViewStates(n.BC, n.Auth)
		if err != nil {
			return nil, err
		}
		if o.Leader != nil {
			n.LR = o.Leader(n.Cfg)
		} else {
			n.LR = leaderrotation.NewRoundRobin(n.Cfg)
		}
		bs := o.BatchSize
		if bs == 0 {
			bs = 1
		}
		n.Cache = clientpb.NewCommandCache(bs)
		n.CIO = server.NewClientIO(n.EL, Quiet{}, n.Cache)
		n.Await = map[clientpb.MessageID]<-chan error{}
		n.Committer = consensus.NewCommitter(n.EL, Quiet{}, n.BC, n.VS, n.Rules)
		n.VM = votingmachine.New(Quiet{}, n.EL, n.Cfg, n.BC, n.Auth, n.VS)
		var cm comm.Communication = comm.NewClique(n.Cfg, n.VM, n.LR, sender)
		if o.Kauri != nil {
			n.Kauri = comm.NewKauri(Quiet{}, n.EL, n.Cfg, n.BC, n.Auth, sender)
			cm = n.Kauri
		}
		n.Voter = consensus.NewVoter(n.Cfg, n.LR, n.Rules, cm, n.Auth, n.Committer)
		n.Proposer = consensus.NewProposer(n.EL, n.Cfg, n.BC, n.VS, n.Rules, cm, n.Voter, n.Cache, n.Committer)
		n.Sync = synchronizer.New(n.EL, Quiet{}, n.Cfg, n.Auth, n.LR, recDuration{n}, synchronizer.NewTimeoutRuler(n.Cfg, n.Auth),
			n.Proposer, n.Voter, n.VS, sender)
		nn := n
		eventloop.Register(n.EL, func(e hotstuff.CommitEvent) { nn.Commits = append(nn.Commits, e.Block) }, eventloop.Prioritize())
		eventloop.Register(n.EL, func(e hotstuff.ViewChangeEvent) { nn.ViewChanges = append(nn.ViewChanges, e) }, eventloop.Prioritize())
		eventloop.Register(n.EL, func(e clientpb.ExecuteEvent) {
			for _, c := range e.Batch.GetCommands() {
				nn.Executed = append(nn.Executed, [2]uint64{uint64(c.GetClientID()), c.GetSequenceNumber()})
			}
		}, eventloop.Prioritize())
		eventloop.Register(n.EL, func(e clientpb.AbortEvent) {
			for _, c := range e.Batch.GetCommands() {
				nn.Aborted = append(nn.Aborted, [2]uint64{uint64(c.GetClientID()), c.GetSequenceNumber()})
			}
		}, eventloop.Prioritize())
	}
	return nodes, nil
}

// Start starts the synchronizer (the leader of view 1 proposes) and drains the event loop.
func (n *Node) Start() {
	ctx, cancel := context.WithCancel(context.Background())
	n.cancel = cancel
	n.guarded(func() int {
		n.Sync.Start(ctx)
		return n.drain()
	})
}

// Stop cancels the node's context (stops the one-hour timer).
func (n *Node) Stop() {
	if n.cancel != nil {
		n.cancel()
	}
}

// guarded runs f (which drives the event loop) under a watchdog when Watchdog > 0: a proposer that finds no command batch
// blocks in CommandCache.Get until its view timer fires -- in a real replica the timer goroutine adds the TimeoutEvent, whose
// run-in-AddEvent handler cancels the proposer's context; here the driver plays the timer when the replica does not return.
func (n *Node) guarded(f func() int) int {
	if n.Watchdog <= 0 {
		return f()
	}
	type res struct {
		k   int
		pan any
	}
	done := make(chan res, 1)
	go func() {
		var r res
		defer func() {
			r.pan = recover()
			done <- r
		}()
		r.k = f()
	}()
	for tries := 0; ; tries++ {
		select {
		case r := <-done:
			if r.pan != nil {
				panic(r.pan)
			}
			return r.k
		case <-time.After(n.Watchdog):
			if tries > 20 {
				panic(fmt.Sprintf("node %d: blocked although its view timer fired %d times", n.ID, tries))
			}
			n.StarvedViews = append(n.StarvedViews, int(n.VS.View()))
			n.StarvedTotal++
			n.timerFired()
			n.EL.AddEvent(hotstuff.TimeoutEvent{View: n.VS.View()})
		}
	}
}

// Drain runs the event loop until no event is pending; returns the number of events handled.
func (n *Node) Drain() int {
	return n.guarded(n.drain)
}

func (n *Node) drain() int {
	k := 0
	for n.EL.Tick(context.Background()) {
		k++
		if k > 100000 {
			panic(fmt.Sprintf("node %d: event loop does not quiesce", n.ID))
		}
	}
	return k
}

// Deliver hands a message to the node the way the server does (AddEvent) and runs to quiescence.
func (n *Node) Deliver(msg any) int {
	return n.guarded(func() int {
		n.EL.AddEvent(msg)
		return n.drain()
	})
}

// timerFired: a one-shot timer that has fired is no longer armed; the synchronizer must start a new one (OnLocalTimeout does so
// first thing).  Only the timer armed for the current view is played by the driver.
func (n *Node) timerFired() {
	if n.TimerView == int(n.VS.View()) {
		n.TimerView = 0
	}
}

// FireTimeout makes the node's view timer expire for its current view.
func (n *Node) FireTimeout() int {
	n.timerFired()
	return n.Deliver(hotstuff.TimeoutEvent{View: n.VS.View()})
}

// Submit is what ClientIO.ExecCommand does for a client request: register the waiting client, add the
// command to the cache.
func (n *Node) Submit(cmd *clientpb.Command) {
	if n.Submitted == nil {
		n.Submitted = map[clientpb.MessageID]bool{}
	}
	n.Submitted[cmd.ID()] = true
	n.Await[cmd.ID()] = n.CIO.VerifAwait(cmd.ID())
	n.Cache.Add(cmd)
}

// fakeServerCtx has the layout of gorums.ServerCtx, whose constructor is unexported (a handler only calls Release on it).
type fakeServerCtx struct {
	context.Context
	once *sync.Once
	mut  *sync.Mutex
	c    chan<- *gorums.Message
}

// SubmitReal makes the client request through the real handler ClientIO.ExecCommand (which blocks until the command
// completes): a goroutine plays the gorums server, the outcome is picked up by CollectOutcomes when the handler returns.
func (n *Node) SubmitReal(cmd *clientpb.Command) {
	if n.Submitted == nil {
		n.Submitted = map[clientpb.MessageID]bool{}
	}
	n.Submitted[cmd.ID()] = true
	mut := &sync.Mutex{}
	mut.Lock()
	f := fakeServerCtx{Context: context.Background(), once: new(sync.Once), mut: mut, c: make(chan *gorums.Message, 4)}
	sctx := *(*gorums.ServerCtx)(unsafe.Pointer(&f))
	registered := make(chan struct{})
	go func() {
		go func() { mut.Lock(); close(registered) }() // Release() unlocks the mutex after the request is registered and queued
		_, err := n.CIO.ExecCommand(sctx, cmd)
		code := int64(0)
		if err != nil {
			code = 1
		}
		n.asyncMu.Lock()
		n.asyncOut = append(n.asyncOut, [3]int64{int64(cmd.ClientID), int64(cmd.SequenceNumber), code})
		n.asyncMu.Unlock()
	}()
	select {
	case <-registered:
	case <-time.After(2 * time.Second):
	}
}

// CollectOutcomes drains the outcome channels (a channel may hold more than one outcome if the
// implementation answered twice).
func (n *Node) CollectOutcomes() {
	for i := 0; i < 3; i++ {
		runtime.Gosched() // let handlers that just received their outcome return
	}
	n.asyncMu.Lock()
	n.Outcomes = append(n.Outcomes, n.asyncOut...)
	n.asyncOut = nil
	n.asyncMu.Unlock()
	ids := make([]clientpb.MessageID, 0, len(n.Await))
	for id := range n.Await {
		ids = append(ids, id)
	}
	sort.Slice(ids, func(i, j int) bool {
		if ids[i].ClientID != ids[j].ClientID {
			return ids[i].ClientID < ids[j].ClientID
		}
		return ids[i].SequenceNumber < ids[j].SequenceNumber
	})
	for _, id := range ids {
		for {
			select {
			case err := <-n.Await[id]:
				code := int64(0)
				if err != nil {
					code = 1
				}
				n.Outcomes = append(n.Outcomes, [3]int64{int64(id.ClientID), int64(id.SequenceNumber), code})
				continue
			default:
			}
			break
		}
	}
}

// TakeOut returns and clears the captured outgoing messages.
func (n *Node) TakeOut() []OutMsg {
	o := n.Out
	n.Out = nil
	return o
}
