//go:build verif

package hx

import (
	"fmt"

	bls12 "github.com/kilic/bls12-381"
	"github.com/relab/hotstuff"
	"github.com/relab/hotstuff/internal/proto/clientpb"
	"github.com/relab/hotstuff/security/crypto"
)

// Abstract certificates: the JSON form shared with spec/Cert.tla, and their instantiation with
// real keys and real signatures.

// Msg is an abstract message: ["B",0,0,name] | ["V",view,0,""] | ["T",id,view,qcname].
type Msg [4]any

func BlockMsg(name string) Msg      { return Msg{"B", 0, 0, name} }
func ViewMsg(v int) Msg             { return Msg{"V", v, 0, ""} }
func TMsg(id, v int, qc string) Msg { return Msg{"T", id, v, qc} }

// Entry is [claimed id, real signer (0 = garbage bytes), message].
type Entry [3]any

// AbsSig is the abstract signature object.
type AbsSig struct {
	T    string  `json:"t"`    // nil | multi | bls
	E    []Entry `json:"e"`    // multi: entries; bls: atoms (claimed ignored, written as 0)
	Bits []int   `json:"bits"` // bls: claimed bit-field
}

// AbsQC is the abstract quorum certificate.
type AbsQC struct {
	Hash      string `json:"hash"` // B1 | B2 | B3 (unknown to the verifier) | genesis | zero
	View      int    `json:"view"`
	BlockView int    `json:"blockView"`
	Known     bool   `json:"known"`
	Sig       AbsSig `json:"sig"`
}

// AbsTC is the abstract timeout certificate.
type AbsTC struct {
	View int    `json:"view"`
	Sig  AbsSig `json:"sig"`
}

// AbsAgg is the abstract aggregate QC; QCs lists [id, qcname].
type AbsAgg struct {
	View int      `json:"view"`
	QCs  [][2]any `json:"qcs"`
	Sig  AbsSig   `json:"sig"`
}

// World instantiates abstract objects for one cluster (n members + one outsider with a key).
type World struct {
	Scheme string
	N      int
	Secs   []*Sec // n+1 signers; the last one is not a configured member
	Blocks map[string]*hotstuff.Block
	sigs   map[string][]byte // real single signatures by (signer, message bytes)
	QCDefs map[string]AbsQC  // named QCs (for timeout messages)
	qcObjs map[string]hotstuff.QuorumCert
	garb   int
}

// NewWorld creates blocks B1 (view 1) <- B2 (view 2) known to everybody and B3 (view 3) known to nobody.
func NewWorld(scheme string, secs []*Sec, n int) *World {
	w := &World{Scheme: scheme, N: n, Secs: secs, Blocks: map[string]*hotstuff.Block{}, sigs: map[string][]byte{},
		QCDefs: map[string]AbsQC{}, qcObjs: map[string]hotstuff.QuorumCert{}}
	g := hotstuff.GetGenesis()
	gqc := hotstuff.NewQuorumCert(nil, 0, g.Hash())
	cmd := func(k uint64) *clientpb.Batch {
		return &clientpb.Batch{Commands: []*clientpb.Command{{ClientID: 1, SequenceNumber: k, Data: []byte("x")}}}
	}
	b1 := hotstuff.NewBlock(g.Hash(), gqc, cmd(1), 1, 1)
	b2 := hotstuff.NewBlock(b1.Hash(), hotstuff.NewQuorumCert(nil, 1, b1.Hash()), cmd(2), 2, 1)
	b3 := hotstuff.NewBlock(b2.Hash(), hotstuff.NewQuorumCert(nil, 2, b2.Hash()), cmd(3), 3, 1)
	w.Blocks["genesis"], w.Blocks["B1"], w.Blocks["B2"], w.Blocks["B3"] = g, b1, b2, b3
	for _, s := range secs {
		s.BC.Store(b1)
		s.BC.Store(b2)
	}
	return w
}

// HashOf resolves a hash name.
func (w *World) HashOf(name string) hotstuff.Hash {
	if name == "zero" {
		return hotstuff.Hash{}
	}
	return w.Blocks[name].Hash()
}

// BlockViewOf returns the ground-truth view of the named block (-1 when the verifier cannot know it).
func (w *World) BlockViewOf(name string) (view int, known bool) {
	switch name {
	case "genesis":
		return 0, true
	case "B1":
		return 1, true
	case "B2":
		return 2, true
	}
	return -1, false
}

// Bytes returns the concrete bytes of an abstract message.
func (w *World) Bytes(m Msg) []byte {
	switch m[0].(string) {
	case "B":
		return w.Blocks[m[3].(string)].ToBytes()
	case "V":
		return hotstuff.View(m[1].(int)).ToBytes()
	case "T":
		tm := hotstuff.TimeoutMsg{ID: hotstuff.ID(m[1].(int)), View: hotstuff.View(m[2].(int))}
		if name := m[3].(string); name != "" {
			tm.SyncInfo = hotstuff.NewSyncInfoWith(w.QC(name))
		}
		return tm.ToBytes()
	}
	panic("bad message")
}

// single returns the real signature bytes of signer s over m (cached: one signing per atom).
func (w *World) single(s int, m Msg) []byte {
	mb := w.Bytes(m)
	key := fmt.Sprintf("%d|%x", s, mb)
	if b, ok := w.sigs[key]; ok {
		return b
	}
	sig, err := w.Secs[s-1].Base.Sign(mb)
	if err != nil {
		panic(err)
	}
	b := sig.ToBytes()
	w.sigs[key] = b
	return b
}

func (w *World) garbage() []byte {
	w.garb++
	switch w.Scheme {
	case crypto.NameEDDSA:
		b := make([]byte, 64)
		b[0], b[1] = byte(w.garb), byte(w.garb>>8)
		return b
	}
	return []byte{0x30, 0x06, 0x02, 0x01, byte(w.garb), 0x02, 0x01, 0x01}
}

// Sig instantiates an abstract signature.
func (w *World) Sig(a AbsSig) hotstuff.QuorumSignature {
	switch a.T {
	case "nil":
		return nil
	case "multi":
		if w.Scheme == crypto.NameEDDSA {
			out := make(crypto.Multi[*crypto.EDDSASignature], 0, len(a.E))
			for _, e := range a.E {
				out = append(out, crypto.RestoreEDDSASignature(w.entryBytes(e), hotstuff.ID(e[0].(int))))
			}
			return out
		}
		out := make(crypto.Multi[*crypto.ECDSASignature], 0, len(a.E))
		for _, e := range a.E {
			out = append(out, crypto.RestoreECDSASignature(w.entryBytes(e), hotstuff.ID(e[0].(int))))
		}
		return out
	case "bls":
		g2 := bls12.NewG2()
		agg := g2.Zero()
		for _, e := range a.E {
			p, err := g2.FromCompressed(w.single(e[1].(int), e[2].(Msg)))
			if err != nil {
				panic(err)
			}
			g2.Add(agg, agg, p)
		}
		var bf crypto.Bitfield
		for _, id := range a.Bits {
			bf.Add(hotstuff.ID(id))
		}
		s, err := crypto.RestoreBLS12AggregateSignature(g2.ToCompressed(agg), bf)
		if err != nil {
			panic(err)
		}
		return s
	}
	panic("bad sig type " + a.T)
}

func (w *World) entryBytes(e Entry) []byte {
	if e[1].(int) == 0 {
		return w.garbage()
	}
	return w.single(e[1].(int), e[2].(Msg))
}

// DefQC registers a named abstract QC (used inside timeout messages / aggregate QCs).
func (w *World) DefQC(name string, q AbsQC) {
	w.QCDefs[name] = q
	w.qcObjs[name] = w.MkQC(q)
}

// QC returns the concrete QC registered under name.
func (w *World) QC(name string) hotstuff.QuorumCert { return w.qcObjs[name] }

// MkQC instantiates an abstract QC.
func (w *World) MkQC(q AbsQC) hotstuff.QuorumCert {
	return hotstuff.NewQuorumCert(w.Sig(q.Sig), hotstuff.View(q.View), w.HashOf(q.Hash))
}

// MkTC instantiates an abstract TC.
func (w *World) MkTC(t AbsTC) hotstuff.TimeoutCert {
	return hotstuff.NewTimeoutCert(w.Sig(t.Sig), hotstuff.View(t.View))
}

// MkAgg instantiates an abstract aggregate QC.
func (w *World) MkAgg(a AbsAgg) hotstuff.AggregateQC {
	qcs := map[hotstuff.ID]hotstuff.QuorumCert{}
	for _, kv := range a.QCs {
		qcs[hotstuff.ID(kv[0].(int))] = w.QC(kv[1].(string))
	}
	return hotstuff.NewAggregateQC(qcs, w.Sig(a.Sig), hotstuff.View(a.View))
}

// GoodMulti returns a signature in which every listed signer really signed m.
func (w *World) GoodSig(signers []int, m Msg) AbsSig {
	if w.Scheme == crypto.NameBLS12 {
		a := AbsSig{T: "bls", E: []Entry{}, Bits: []int{}}
		for _, s := range signers {
			a.E = append(a.E, Entry{0, s, m})
			a.Bits = append(a.Bits, s)
		}
		return a
	}
	a := AbsSig{T: "multi", E: []Entry{}, Bits: []int{}}
	for _, s := range signers {
		a.E = append(a.E, Entry{s, s, m})
	}
	return a
}

// Clone copies an abstract signature.
func (a AbsSig) Clone() AbsSig {
	return AbsSig{T: a.T, E: append([]Entry{}, a.E...), Bits: append([]int{}, a.Bits...)}
}
