//go:build verif

// Package hx holds helpers shared by the verification drivers: a silent logger, key
// generation, and clusters of real security components (RuntimeConfig, crypto.Base,
// Blockchain, cert.Authority) wired the way wiring.NewSecurity does it.
package hx

import (
	"context"
	"fmt"
	"os"
	"sync"

	"github.com/relab/hotstuff"
	"github.com/relab/hotstuff/core"
	"github.com/relab/hotstuff/core/eventloop"
	"github.com/relab/hotstuff/core/logging"
	"github.com/relab/hotstuff/security/blockchain"
	"github.com/relab/hotstuff/security/cert"
	"github.com/relab/hotstuff/security/crypto"
	"github.com/relab/hotstuff/security/crypto/keygen"
)

// Quiet is a logger that discards everything.
type Quiet struct{}

func (Quiet) DPanic(...any)          {}
func (Quiet) DPanicf(string, ...any) {}
func (Quiet) Debug(...any)           {}
func (Quiet) Debugf(string, ...any)  {}
func (Quiet) Error(...any)           {}
func (Quiet) Errorf(string, ...any)  {}
func (Quiet) Fatal(...any)           {}
func (Quiet) Fatalf(string, ...any)  {}
func (Quiet) Info(a ...any) {
	if debugLog {
		fmt.Fprintln(os.Stderr, append([]any{"[info]"}, a...)...)
	}
}
func (Quiet) Infof(t string, a ...any) {
	if InfoHook != nil {
		InfoHook(fmt.Sprintf(t, a...))
	}
	if debugLog {
		fmt.Fprintf(os.Stderr, "[info] "+t+"\n", a...)
	}
}
func (Quiet) Panic(a ...any) { panic(fmt.Sprint(a...)) }
func (Quiet) Panicf(t string, a ...any) {
	panic(fmt.Sprintf(t, a...))
}
func (Quiet) Warn(...any)          {}
func (Quiet) Warnf(string, ...any) {}

var _ logging.Logger = Quiet{}

// InfoHook, when set, sees every Info-level message of the code under test (diagnosis only).
var InfoHook func(string)

// HSVERIF_LOG=1 prints the Info-level messages of the code under test (diagnosis only)
var debugLog = os.Getenv("HSVERIF_LOG") != ""

// GenKey generates a private key for the named scheme.
func GenKey(scheme string) (hotstuff.PrivateKey, error) {
	switch scheme {
	case crypto.NameECDSA:
		return keygen.GenerateECDSAPrivateKey()
	case crypto.NameEDDSA:
		_, k, err := keygen.GenerateED25519Key()
		return k, err
	case crypto.NameBLS12:
		return crypto.GenerateBLS12PrivateKey()
	}
	return nil, fmt.Errorf("unknown scheme %q", scheme)
}

// NullSender drops everything; RequestBlock consults the registered chains (like MockSender).
type NullSender struct {
	mu     sync.Mutex
	Chains []*blockchain.Blockchain
	// Fetch, when set, answers RequestBlock instead of Chains.
	Fetch func(hash hotstuff.Hash) (*hotstuff.Block, bool)
}

func (s *NullSender) NewView(hotstuff.ID, hotstuff.SyncInfo) error { return nil }
func (s *NullSender) Vote(hotstuff.ID, hotstuff.PartialCert) error { return nil }
func (s *NullSender) Timeout(hotstuff.TimeoutMsg)                  {}
func (s *NullSender) Propose(*hotstuff.ProposeMsg)                 {}
func (s *NullSender) Sub([]hotstuff.ID) (core.Sender, error)       { return s, nil }
func (s *NullSender) RequestBlock(_ context.Context, h hotstuff.Hash) (*hotstuff.Block, bool) {
	if s.Fetch != nil {
		return s.Fetch(h)
	}
	for _, c := range s.Chains {
		if b, ok := c.LocalGet(h); ok {
			return b, true
		}
	}
	return nil, false
}

var _ core.Sender = (*NullSender)(nil)

// Sec is one replica's real security stack.
type Sec struct {
	ID     hotstuff.ID
	Key    hotstuff.PrivateKey
	Cfg    *core.RuntimeConfig
	EL     *eventloop.EventLoop
	Base   crypto.Base // the raw scheme implementation (never cached)
	BC     *blockchain.Blockchain
	Auth   *cert.Authority
	Sender core.Sender
}

// SecOpts configures NewSecCluster.
type SecOpts struct {
	N        int
	Scheme   string
	Opts     []core.RuntimeOption
	Keys     []hotstuff.PrivateKey                           // optional: reuse keys (index id-1)
	Sender   func(id hotstuff.ID) core.Sender                // optional
	WrapBase func(id hotstuff.ID, b crypto.Base) crypto.Base // optional wrapper around the scheme
	Members  int                                             // number of configured replicas (default N); replicas N+1.. are not built
	// Early: the components are wired up and asked to verify a certificate BEFORE the membership is installed (the code builds
	// components first and adds replicas on connection); what they answer later must not depend on that.
	Early bool
}

// NewSecCluster builds N replicas' security components which all know each other's keys.
func NewSecCluster(o SecOpts) ([]*Sec, error) {
	keys := o.Keys
	for len(keys) < o.N {
		k, err := GenKey(o.Scheme)
		if err != nil {
			return nil, err
		}
		keys = append(keys, k)
	}
	secs := make([]*Sec, o.N)
	for i := 0; i < o.N; i++ {
		id := hotstuff.ID(i + 1)
		s := &Sec{ID: id, Key: keys[i]}
		s.Cfg = core.NewRuntimeConfig(id, keys[i], o.Opts...)
		s.EL = eventloop.New(Quiet{}, 1024)
		var err error
		s.Base, err = crypto.New(s.Cfg, o.Scheme)
		if err != nil {
			return nil, err
		}
		if o.Sender != nil {
			s.Sender = o.Sender(id)
		} else {
			s.Sender = &NullSender{}
		}
		secs[i] = s
	}
	if o.Early {
		for _, s := range secs {
			s.BC = blockchain.New(s.EL, Quiet{}, s.Sender)
			base := s.Base
			if o.WrapBase != nil {
				base = o.WrapBase(s.ID, base)
			}
			s.Auth = cert.NewAuthority(s.Cfg, s.BC, base)
			func() {
				defer func() { _ = recover() }()
				if sig, err := s.Base.Sign(hotstuff.View(1).ToBytes()); err == nil {
					_ = s.Auth.VerifyTimeoutCert(hotstuff.NewTimeoutCert(sig, 1))
					_ = s.Auth.VerifyQuorumCert(hotstuff.NewQuorumCert(sig, 1, hotstuff.GetGenesis().Hash()))
				}
			}()
		}
	}
	for _, s := range secs {
		for _, t := range secs {
			s.Cfg.AddReplica(&hotstuff.ReplicaInfo{
				ID:       t.ID,
				PubKey:   t.Key.Public(),
				Metadata: t.Cfg.ConnectionMetadata(),
			})
		}
	}
	for _, s := range secs {
		if o.Early {
			break
		}
		s.BC = blockchain.New(s.EL, Quiet{}, s.Sender)
		base := s.Base
		if o.WrapBase != nil {
			base = o.WrapBase(s.ID, base)
		}
		s.Auth = cert.NewAuthority(s.Cfg, s.BC, base)
	}
	for _, s := range secs {
		if ns, ok := s.Sender.(*NullSender); ok {
			for _, t := range secs {
				if t != s {
					ns.Chains = append(ns.Chains, t.BC)
				}
			}
		}
	}
	return secs, nil
}

// IDs returns the participants of a signature in iteration order.
func IDs(set hotstuff.IDSet) []int {
	out := []int{}
	if set == nil {
		return out
	}
	set.ForEach(func(id hotstuff.ID) { out = append(out, int(id)) })
	return out
}
