//go:build verif

package main

import (
	"bytes"
	"encoding/json"
	"errors"
	"flag"
	"fmt"
	"io"
	"math/rand"
	"sort"
	"sync"
	"sync/atomic"

	"github.com/relab/hotstuff"
	"github.com/relab/hotstuff/internal/proto/clientpb"
	"github.com/relab/hotstuff/internal/verif/hx"
	"github.com/relab/hotstuff/twins"
)

func init() { subcommands["c18"] = c18 }

type absView struct {
	Leader int     `json:"leader"`
	Parts  [][]int `json:"parts"`
}

func toAbsView(v twins.View) absView {
	a := absView{Leader: int(v.Leader), Parts: [][]int{}}
	for _, p := range v.Partitions {
		ids := []int{}
		for id := range p {
			ids = append(ids, int(id.ReplicaID)*10+int(id.TwinID))
		}
		sort.Ints(ids)
		a.Parts = append(a.Parts, ids)
	}
	return a
}

type viewTable struct {
	ids   map[string]int
	table []absView
}

func (t *viewTable) id(v twins.View) int {
	a := toAbsView(v)
	k, _ := json.Marshal(a)
	if id, ok := t.ids[string(k)]; ok {
		return id
	}
	if t.ids == nil {
		t.ids = map[string]int{}
	}
	t.table = append(t.table, a)
	t.ids[string(k)] = len(t.table)
	return len(t.table)
}

// drain pulls up to limit scenarios; a panic or an error other than EOF is reported.
func drain(g *twins.Generator, tab *viewTable, limit int) (out [][]int, drained bool, err error) {
	defer func() {
		if r := recover(); r != nil {
			err = fmt.Errorf("panic: %v", r)
		}
	}()
	for len(out) < limit {
		s, e := g.NextScenario()
		if errors.Is(e, io.EOF) {
			return out, true, nil
		}
		if e != nil {
			return out, false, e
		}
		ids := make([]int, len(s))
		for i, v := range s {
			ids[i] = tab.id(v)
		}
		out = append(out, ids)
	}
	// is the generator exhausted exactly here?
	if g.Remaining() == 0 {
		return out, true, nil
	}
	return out, false, nil
}

// drainShared: several workers pull from one generator at the same time (what `twins run --concurrency N` does); the scenarios
// are gathered per worker and named afterwards.
func drainShared(g *twins.Generator, tab *viewTable, workers, limit int) (out [][]int, drained bool, err error) {
	got := make([][]twins.Scenario, workers)
	errs := make([]error, workers)
	var wg sync.WaitGroup
	var taken atomic.Int64
	start := make(chan struct{})
	for w := 0; w < workers; w++ {
		wg.Add(1)
		go func(w int) {
			defer wg.Done()
			defer func() {
				if r := recover(); r != nil {
					errs[w] = fmt.Errorf("panic: %v", r)
				}
			}()
			<-start
			for taken.Add(1) <= int64(limit) {
				s, e := g.NextScenario()
				if errors.Is(e, io.EOF) {
					return
				}
				if e != nil {
					errs[w] = e
					return
				}
				got[w] = append(got[w], s)
			}
		}(w)
	}
	close(start)
	wg.Wait()
	for _, e := range errs {
		if e != nil {
			return nil, false, e
		}
	}
	for _, l := range got {
		for _, s := range l {
			ids := make([]int, len(s))
			for i, v := range s {
				ids[i] = tab.id(v)
			}
			out = append(out, ids)
		}
	}
	return out, g.Remaining() == 0, nil
}

func c18(args []string) error {
	fs := flag.NewFlagSet("c18", flag.ExitOnError)
	out := fs.String("out", "", "output ndjson")
	seed := fs.Int64("seed", 1, "seed")
	limit := fs.Int("limit", 3000, "largest number of scenarios drained per setting")
	nverdict := fs.Int("verdicts", 4000, "random commit-log sets (all 2-replica sets are always included)")
	allThree := fs.Bool("all3", false, "enumerate all commit-log sets of three ordinary replicas")
	_ = fs.Parse(args)
	rng := rand.New(rand.NewSource(*seed))
	o, err := newNDJSON(*out)
	if err != nil {
		return err
	}
	for n := 1; n <= 5; n++ {
		for t := 0; t <= 2 && t < n; t++ {
			for k := 1; k <= 3; k++ {
				for v := 1; v <= 4; v++ {
					st := twins.Settings{NumNodes: uint8(n), NumTwins: uint8(t), Partitions: uint8(k), Views: uint8(v)}
					if err := func() (err error) {
						// a panic inside the generator is behaviour of the code under test, not a harness failure
						defer func() {
							if r := recover(); r != nil {
								o.emit(obj{"kind": "panic", "n": n, "t": t, "k": k, "v": v, "msg": fmt.Sprint(r)})
							}
						}()
						var tab viewTable
						g1 := twins.NewGenerator(hx.Quiet{}, st)
						announced := g1.Remaining()
						y1, drained, err := drain(g1, &tab, *limit)
						if err != nil {
							return fmt.Errorf("settings %+v: %v", st, err)
						}
						g2 := twins.NewGenerator(hx.Quiet{}, st)
						y2, _, err := drain(g2, &tab, *limit)
						if err != nil {
							return err
						}
						st1 := st
						st1.Views = 1
						g3 := twins.NewGenerator(hx.Quiet{}, st1)
						lpAnn := int(g3.Remaining())
						lp1, _, err := drain(g3, &tab, lpAnn+5)
						if err != nil {
							return err
						}
						lp := []int{}
						for _, s := range lp1 {
							lp = append(lp, s[0])
						}
						// the 1-view generator is itself subject to the announced-number rule (checked on its own line);
						// for the odometer model the table must be complete: complete it from the announced size if short
						ann := int(announced)
						big := false
						if announced > 1<<30 {
							ann, big = 1<<30, true
						}
						o.emit(obj{"kind": "gen", "big": big, "n": n, "t": t, "k": k, "v": v, "announced": ann, "drained": drained, "table": tab.table,
							"yielded": y1, "again": fmt.Sprint(y1) == fmt.Sprint(y2), "lp": lp, "lpAnnounced": lpAnn})
						// shuffle: same seed -> same order; a permutation of the unshuffled set
						if v <= 2 || announced <= int64(*limit) {
							sd := rng.Int63()
							ga := twins.NewGenerator(hx.Quiet{}, st)
							ga.Shuffle(sd)
							gb := twins.NewGenerator(hx.Quiet{}, st)
							gb.Shuffle(sd)
							ya, da, err := drain(ga, &tab, *limit)
							if err != nil {
								return err
							}
							yb, _, err := drain(gb, &tab, *limit)
							if err != nil {
								return err
							}
							o.emit(obj{"kind": "shuffle", "n": n, "t": t, "k": k, "v": v, "seed": fmt.Sprint(sd), "yielded": ya, "yielded2": yb,
								"unshuffled": y1, "drained": da && drained})
						}
						// one generator shared by several workers: together they get exactly the scenarios a single caller gets
						if announced > 1 && announced <= int64(*limit) && drained {
							gs := twins.NewGenerator(hx.Quiet{}, st)
							ys, ds, err := drainShared(gs, &tab, 2+rng.Intn(7), *limit)
							if err != nil {
								return err
							}
							o.emit(obj{"kind": "shared", "n": n, "t": t, "k": k, "v": v, "yielded": ys, "unshuffled": y1, "drained": ds})
						}
						// JSON round trip of (a sample of) the scenarios
						if v <= 2 {
							g4 := twins.NewGenerator(hx.Quiet{}, st)
							var buf bytes.Buffer
							wr, err := twins.ToJSON(st, &buf)
							if err != nil {
								return err
							}
							var before [][]absView
							for i := 0; i < 40; i++ {
								s, e := g4.NextScenario()
								if e != nil {
									break
								}
								if err := wr.WriteScenario(s); err != nil {
									return err
								}
								var b []absView
								for _, x := range s {
									b = append(b, toAbsView(x))
								}
								before = append(before, b)
							}
							if err := wr.Close(); err != nil {
								return err
							}
							src, err := twins.FromJSON(&buf)
							if err != nil {
								return fmt.Errorf("FromJSON: %v", err)
							}
							var after [][]absView
							for src.Remaining() > 0 {
								s, e := src.NextScenario()
								if e != nil {
									return e
								}
								var b []absView
								for _, x := range s {
									b = append(b, toAbsView(x))
								}
								after = append(after, b)
							}
							o.emit(obj{"kind": "json", "n": n, "t": t, "k": k, "v": v, "before": before, "after": after,
								"settingsKept": src.Settings().NumNodes == st.NumNodes && src.Settings().NumTwins == st.NumTwins && src.Settings().Views == st.Views})
						}
						return nil
					}(); err != nil {
						return err
					}
				}
			}
		}
	}
	// ---- verdicts on synthetic commit logs
	blocks := []*hotstuff.Block{}
	parent := hotstuff.GetGenesis()
	for i := 1; i <= 3; i++ {
		b := hotstuff.NewBlock(parent.Hash(), hotstuff.NewQuorumCert(nil, 0, parent.Hash()), &clientpb.Batch{}, hotstuff.View(i), 1)
		blocks = append(blocks, b)
	}
	var allLogs [][]int
	var rec func(prefix []int, d int)
	rec = func(prefix []int, d int) {
		allLogs = append(allLogs, append([]int{}, prefix...))
		if d == 0 {
			return
		}
		for b := 1; b <= 3; b++ {
			rec(append(prefix, b), d-1)
		}
	}
	rec(nil, 3)
	emitVerdict := func(sets [][]int, nodes []int) {
		logs := map[hotstuff.ID][][]*hotstuff.Block{}
		var abs []obj
		id := 1
		i := 0
		for _, cnt := range nodes {
			for c := 0; c < cnt; c++ {
				var l []*hotstuff.Block
				for _, b := range sets[i] {
					l = append(l, blocks[b-1])
				}
				logs[hotstuff.ID(id)] = append(logs[hotstuff.ID(id)], l)
				abs = append(abs, obj{"id": id, "nodes": cnt, "log": sets[i]})
				i++
			}
			id++
		}
		safe, commits := twins.VerifCheckCommits(logs)
		o.emit(obj{"kind": "verdict", "logs": abs, "safe": safe, "commits": commits})
	}
	for _, a := range allLogs {
		for _, b := range allLogs {
			emitVerdict([][]int{a, b}, []int{1, 1})
		}
	}
	if *allThree {
		for _, a := range allLogs {
			for _, b := range allLogs {
				for _, c := range allLogs {
					emitVerdict([][]int{a, b, c}, []int{1, 1, 1})
				}
			}
		}
	}
	for i := 0; i < *nverdict; i++ {
		// up to 4 replicas, possibly one twin pair whose logs must be ignored
		nrep := 1 + rng.Intn(4)
		var nodes []int
		var sets [][]int
		twin := rng.Intn(nrep + 1) // index of the twin pair, nrep = none
		base := allLogs[rng.Intn(len(allLogs))]
		for r := 0; r < nrep; r++ {
			cnt := 1
			if r == twin {
				cnt = 2
			}
			nodes = append(nodes, cnt)
			for c := 0; c < cnt; c++ {
				// mostly prefixes of a common chain, sometimes arbitrary
				if rng.Intn(3) > 0 {
					sets = append(sets, append([]int{}, base[:rng.Intn(len(base)+1)]...))
				} else {
					sets = append(sets, allLogs[rng.Intn(len(allLogs))])
				}
			}
		}
		emitVerdict(sets, nodes)
	}
	return o.close()
}
