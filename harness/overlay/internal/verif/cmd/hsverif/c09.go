//go:build verif

package main

import (
	"bytes"
	"flag"
	"fmt"
	"math/rand"
	"runtime"
	"time"

	"github.com/relab/hotstuff"
	"github.com/relab/hotstuff/core"
	"github.com/relab/hotstuff/core/eventloop"
	"github.com/relab/hotstuff/internal/proto/clientpb"
	"github.com/relab/hotstuff/internal/verif/hx"
	"github.com/relab/hotstuff/protocol/leaderrotation"
	"github.com/relab/hotstuff/security/crypto"
)

func init() { subcommands["c09"] = c09 }

// altLR: odd views are led by replica 1 (a puppet of the harness), even views by the collector R = 2.
type altLR struct{}

func (altLR) GetLeader(v hotstuff.View) hotstuff.ID {
	if v%2 == 1 {
		return 1
	}
	return 2
}

// relabel returns the signature bytes of src under another claimed signer id (ECDSA/EdDSA).
func relabel(scheme string, src hotstuff.QuorumSignature, as hotstuff.ID) hotstuff.QuorumSignature {
	switch m := src.(type) {
	case crypto.Multi[*crypto.ECDSASignature]:
		return crypto.NewMulti(crypto.RestoreECDSASignature(m[0].ToBytes(), as))
	case crypto.Multi[*crypto.EDDSASignature]:
		return crypto.NewMulti(crypto.RestoreEDDSASignature(m[0].ToBytes(), as))
	case *crypto.BLS12AggregateSignature:
		var bf crypto.Bitfield
		bf.Add(as)
		s, _ := crypto.RestoreBLS12AggregateSignature(m.ToBytes(), bf)
		return s
	}
	return src
}

func c09(args []string) error {
	fs := flag.NewFlagSet("c09", flag.ExitOnError)
	out := fs.String("out", "", "output ndjson")
	seed := fs.Int64("seed", 1, "seed")
	seqs := fs.Int("seqs", 60, "sequences")
	rounds := fs.Int("rounds", 4, "rounds (blocks to certify) per sequence")
	_ = fs.Parse(args)
	rng := rand.New(rand.NewSource(*seed))
	o, err := newNDJSON(*out)
	if err != nil {
		return err
	}
	for sq := 0; sq < *seqs; sq++ {
		n := 4
		if sq%3 == 2 {
			n = 7
		}
		async := sq%2 == 1
		scheme := []string{crypto.NameECDSA, crypto.NameEDDSA, crypto.NameBLS12}[(sq/2)%3]
		const R = 2
		nodes, err := hx.NewNodes(hx.NodeOpts{N: n, Scheme: scheme, Ruleset: "chainedhotstuff", Async: async,
			Leader: func(*core.RuntimeConfig) leaderrotation.LeaderRotation { return altLR{} }})
		if err != nil {
			return err
		}
		r := nodes[R-1]
		q := hotstuff.QuorumSize(n)
		var qcs []hotstuff.QuorumCert // certificates emitted on R's loop (internal NewViewMsg)
		eventloop.Register(r.EL, func(m hotstuff.NewViewMsg) {
			if m.FromNetwork {
				return
			}
			if qc, ok := m.SyncInfo.QC(); ok {
				qcs = append(qcs, qc)
			}
		}, eventloop.Prioritize())
		for i := 0; i < 40; i++ {
			r.Cache.Add(&clientpb.Command{ClientID: 1, SequenceNumber: uint64(i + 1)})
		}
		r.Start()
		r.TakeOut()
		o.emit(obj{"op": "new", "n": n, "q": q, "async": async, "scheme": scheme, "self": R})
		baseline := runtime.NumGoroutine()
		held := func(b *hotstuff.Block) []int {
			out := []int{}
			for _, id := range r.VM.VerifVotes()[b.Hash()] {
				out = append(out, int(id))
			}
			return out
		}
		// settle waits until the verification goroutines that are not parked have finished
		settle := func() {
			if !async {
				return
			}
			_ = baseline
			// a vote that passed the collector's checks spawns a verification that parks at the gate
			time.Sleep(300 * time.Microsecond)
			runtime.Gosched()
		}
		emitQCs := func(line obj, cur *hotstuff.Block) {
			var qa []obj
			for _, qc := range qcs {
				valid := true
				for _, other := range nodes {
					if other.ID != R {
						ok, _, _ := verdict(func() error { return other.Auth.VerifyQuorumCert(qc) })
						valid = valid && ok
					}
				}
				qa = append(qa, obj{"cur": qc.BlockHash() == cur.Hash(), "signers": hx.IDs(qc.Signature().Participants()), "valid": valid})
			}
			qcs = nil
			line["qcs"] = qa
			line["held"] = held(cur)
			line["view"] = int(r.VS.View())
			o.emit(line)
		}
		prev := hotstuff.GetGenesis() // the block the next proposal of the puppet leader extends
		prevQC := hotstuff.NewQuorumCert(nil, 0, prev.Hash())
		var old *hotstuff.Block
		for round := 1; round <= *rounds; round++ {
			view := hotstuff.View(2*round - 1)
			b := hotstuff.NewBlock(prev.Hash(), prevQC, &clientpb.Batch{Commands: []*clientpb.Command{{ClientID: 7, SequenceNumber: uint64(round)}}}, view, 1)
			for _, p := range nodes {
				if p.ID != R {
					p.BC.Store(b)
				}
			}
			unknown := hotstuff.NewBlock(b.Hash(), hotstuff.NewQuorumCert(nil, view, b.Hash()), &clientpb.Batch{}, view+1, 5)
			// a second block that is newer than R's high QC, stored at R and voted for by a few replicas (never a quorum) while
			// the votes for b arrive: votes are counted per block, whatever else the signer has voted for
			ahead := hotstuff.NewBlock(b.Hash(), hotstuff.NewQuorumCert(nil, view, b.Hash()), &clientpb.Batch{}, hotstuff.View(2**rounds+1+2*round), 1)
			r.BC.Store(ahead)
			o.emit(obj{"op": "round", "view": int(view)})
			// the events of this round: the proposal, one valid vote per other replica, hostile votes
			type ev struct {
				kind string
				from int
			}
			var evs []ev
			evs = append(evs, ev{"proposal", 1})
			voters := rng.Perm(n)
			nvalid := q - 1 + rng.Intn(n-q+1) // other replicas that vote (R votes itself): enough for a quorum, sometimes all
			if rng.Intn(6) == 0 {
				nvalid = q - 2 // no quorum in this round
			}
			cnt := 0
			for _, i := range voters {
				if i+1 == R {
					continue
				}
				if cnt < nvalid {
					evs = append(evs, ev{"valid", i + 1})
					cnt++
				}
			}
			for h := 0; h < 2+rng.Intn(4); h++ {
				from := 1 + rng.Intn(n)
				if from == R {
					from = 1
				}
				if rng.Intn(5) == 0 {
					// a forged vote in the collector's OWN name (the peer id is whatever the sender claims): another replica's signature
					// relabelled as R's
					evs = append(evs, ev{"relabelled", R})
					continue
				}
				evs = append(evs, ev{[]string{"dup", "wrongblock", "relabelled", "twosigners", "stale", "unknown", "outsider"}[rng.Intn(7)], from})
			}
			if rng.Intn(2) == 0 {
				// one of the voters of this round also votes for the block ahead (before or after its vote for b)
				for _, e := range evs {
					if e.kind == "valid" {
						evs = append(evs, ev{"ahead", e.from})
						break
					}
				}
			}
			if rng.Intn(3) == 0 {
				// the collector leaves the view on a timeout certificate while votes are still arriving (its high QC does not change)
				evs = append(evs, ev{"tc", 1})
			}
			rng.Shuffle(len(evs), func(i, j int) { evs[i], evs[j] = evs[j], evs[i] })
			proposalSeen := false
			deliverVote := func(kind string, from int, vm hotstuff.VoteMsg, abs obj) {
				r.Deliver(vm)
				settle()
				r.Drain()
				abs["op"], abs["kind"], abs["from"], abs["known"] = "vote", kind, from, proposalSeen
				if async {
					abs["parked"] = r.Gate.Count()
				}
				emitQCs(abs, b)
			}
			for _, e := range evs {
				p := nodes[e.from-1]
				switch e.kind {
				case "tc":
					if !proposalSeen || r.VS.View() != view {
						continue // (before the proposal the collector's own next proposal would release the votes set aside: another scenario)
					}
					var sigs []hotstuff.QuorumSignature
					for _, pp := range nodes {
						if pp.ID != R && len(sigs) < q {
							sg, err := pp.Auth.Sign(view.ToBytes())
							if err != nil {
								return err
							}
							sigs = append(sigs, sg)
						}
					}
					agg, err := nodes[0].Auth.Combine(sigs...)
					if err != nil {
						return err
					}
					r.Deliver(hotstuff.NewViewMsg{ID: 1, SyncInfo: hotstuff.NewSyncInfoWith(hotstuff.NewTimeoutCert(agg, view))})
					settle()
					r.Drain()
					tl := obj{"op": "tcview"}
					if async {
						tl["parked"] = r.Gate.Count()
					}
					emitQCs(tl, b)
				case "proposal":
					s0 := len(r.Signed)
					r.Deliver(hotstuff.ProposeMsg{ID: 1, Block: b})
					settle()
					r.Drain()
					proposalSeen = true
					votedSelf := false // did R sign a vote for b while handling the proposal?
					for _, sr := range r.Signed[s0:] {
						votedSelf = votedSelf || bytes.Equal(sr.Msg, b.ToBytes())
					}
					line := obj{"op": "proposal", "votedSelf": votedSelf}
					if async {
						line["parked"] = r.Gate.Count()
					}
					emitQCs(line, b)
				case "valid", "dup":
					pc, err := p.Auth.CreatePartialCert(b)
					if err != nil {
						return err
					}
					deliverVote(e.kind, e.from, hotstuff.VoteMsg{ID: p.ID, PartialCert: pc}, obj{"signers": []int{e.from}, "valid": true, "block": "cur"})
				case "wrongblock": // a signature over another block presented as a vote for this one
					other := unknown
					sig, _ := p.Auth.Sign(other.ToBytes())
					deliverVote(e.kind, e.from, hotstuff.VoteMsg{ID: p.ID, PartialCert: hotstuff.NewPartialCert(sig, b.Hash())}, obj{"signers": []int{e.from}, "valid": false, "block": "cur"})
				case "relabelled": // another replica's valid signature, relabelled as the sender's
					src := nodes[e.from%n]
					pc, _ := src.Auth.CreatePartialCert(b)
					sig := relabel(scheme, pc.Signature(), p.ID)
					deliverVote(e.kind, e.from, hotstuff.VoteMsg{ID: p.ID, PartialCert: hotstuff.NewPartialCert(sig, b.Hash())}, obj{"signers": []int{e.from}, "valid": false, "block": "cur"})
				case "twosigners": // two valid signatures in one vote
					a := p
					c := nodes[(e.from)%n]
					if c.ID == R {
						c = nodes[(e.from+1)%n]
					}
					pa, _ := a.Auth.CreatePartialCert(b)
					pcb, _ := c.Auth.CreatePartialCert(b)
					sig, err := a.Auth.Combine(pa.Signature(), pcb.Signature())
					if err != nil {
						continue
					}
					deliverVote(e.kind, e.from, hotstuff.VoteMsg{ID: p.ID, PartialCert: hotstuff.NewPartialCert(sig, b.Hash())},
						obj{"signers": hx.IDs(sig.Participants()), "valid": true, "block": "cur"})
				case "stale":
					if old == nil {
						continue
					}
					pc, err := p.Auth.CreatePartialCert(old)
					if err != nil {
						continue
					}
					deliverVote(e.kind, e.from, hotstuff.VoteMsg{ID: p.ID, PartialCert: pc}, obj{"signers": []int{e.from}, "valid": true, "block": "old"})
				case "ahead":
					pc, err := p.Auth.CreatePartialCert(ahead)
					if err != nil {
						return err
					}
					deliverVote(e.kind, e.from, hotstuff.VoteMsg{ID: p.ID, PartialCert: pc}, obj{"signers": []int{e.from}, "valid": true, "block": "ahead"})
				case "unknown":
					sig, _ := p.Auth.Sign(unknown.ToBytes())
					deliverVote(e.kind, e.from, hotstuff.VoteMsg{ID: p.ID, PartialCert: hotstuff.NewPartialCert(sig, unknown.Hash())}, obj{"signers": []int{e.from}, "valid": true, "block": "unknown"})
				case "outsider": // a key that is not a configured replica, labelled with an unknown id
					k, _ := hx.GenKey(scheme)
					_ = k
					pc, _ := p.Auth.CreatePartialCert(b)
					sig := relabel(scheme, pc.Signature(), hotstuff.ID(n+3))
					deliverVote(e.kind, e.from, hotstuff.VoteMsg{ID: hotstuff.ID(n + 3), PartialCert: hotstuff.NewPartialCert(sig, b.Hash())}, obj{"signers": []int{n + 3}, "valid": false, "block": "cur"})
				}
				// asynchronous verification: the scheduler completes parked verifications in its own order
				for async && r.Gate.Count() > 0 && rng.Intn(3) > 0 {
					i := rng.Intn(r.Gate.Count())
					r.Gate.ReleaseAndWait(i)
					r.Drain()
					emitQCs(obj{"op": "verified", "parked": r.Gate.Count()}, b)
				}
			}
			if async {
				time.Sleep(2 * time.Millisecond) // let the last spawned verifications reach the gate
			}
			for async && r.Gate.Count() > 0 {
				r.Gate.ReleaseAndWait(rng.Intn(r.Gate.Count()))
				r.Drain()
				emitQCs(obj{"op": "verified", "parked": r.Gate.Count()}, b)
			}
			end := obj{"op": "endround", "round": round}
			if async {
				end["verifications"] = r.Gate.Results
				r.Gate.Results = nil
			}
			o.emit(end)
			// did R certify b and propose on top of it?
			var rBlock *hotstuff.Block
			var rVote *hotstuff.PartialCert
			for _, om := range r.TakeOut() {
				switch m := om.Msg.(type) {
				case hotstuff.ProposeMsg:
					if m.Block.View() == view+1 {
						rBlock = m.Block
					}
				case hotstuff.VoteMsg:
					v := m.PartialCert
					rVote = &v
				}
			}
			if rBlock == nil || rVote == nil || rVote.BlockHash() != rBlock.Hash() {
				o.emit(obj{"op": "stalled", "round": round})
				break // no quorum this round (by design or by defect): the sequence ends here
			}
			// the puppets certify R's block so that the next proposal can extend it
			pcs := []hotstuff.PartialCert{*rVote}
			for _, p := range nodes {
				if p.ID != R && len(pcs) < q {
					p.BC.Store(rBlock)
					pc, err := p.Auth.CreatePartialCert(rBlock)
					if err != nil {
						return err
					}
					pcs = append(pcs, pc)
				}
			}
			qc, err := nodes[0].Auth.CreateQuorumCert(rBlock, pcs)
			if err != nil {
				return fmt.Errorf("cannot certify R's block: %v", err)
			}
			old, prev, prevQC = b, rBlock, qc
		}
		r.Stop()
	}
	return o.close()
}
