//go:build verif

// Command hsverif is the verification harness for relab/hotstuff. It exists only in the
// build overlay of /verif and is never part of the repository.
package main

import (
	"fmt"
	"os"
	"runtime/pprof"
)

type subcommand func(args []string) error

var subcommands = map[string]subcommand{}

func main() {
	if len(os.Args) < 2 {
		fmt.Fprintln(os.Stderr, "usage: hsverif <subcommand> [args]")
		os.Exit(2)
	}
	if pf := os.Getenv("HSVERIF_PROFILE"); pf != "" {
		f, _ := os.Create(pf)
		_ = pprof.StartCPUProfile(f)
		defer pprof.StopCPUProfile()
	}
	cmd, ok := subcommands[os.Args[1]]
	if !ok {
		fmt.Fprintf(os.Stderr, "unknown subcommand %q\n", os.Args[1])
		os.Exit(2)
	}
	if err := cmd(os.Args[2:]); err != nil {
		fmt.Fprintln(os.Stderr, "hsverif:", err)
		pprof.StopCPUProfile()
		os.Exit(2)
	}
}
