//go:build verif

package main

import (
	"context"
	"flag"
	"math/rand"
	"sort"

	"github.com/relab/hotstuff"
	"github.com/relab/hotstuff/core"
	"github.com/relab/hotstuff/core/eventloop"
	"github.com/relab/hotstuff/internal/proto/clientpb"
	"github.com/relab/hotstuff/internal/proto/hotstuffpb"
	"github.com/relab/hotstuff/internal/verif/hx"
	"github.com/relab/hotstuff/network"
	"github.com/relab/hotstuff/protocol"
	"github.com/relab/hotstuff/protocol/consensus"
	"github.com/relab/hotstuff/security/crypto"
)

func init() { subcommands["c13"] = c13 }

// qfSender answers block fetches the way the network layer does: it collects replies from "peers"
// (honest copies and lies) and lets the real RequestBlockQF pick.
type qfSender struct {
	hx.NullSender
	remote map[hotstuff.Hash]*hotstuff.Block
	lies   []*hotstuff.Block // blocks offered in answer to every request
	rng    *rand.Rand
	// arrive, when set, is called while a fetch is under way (the store's lock is released then): the requested block arrives by
	// another path (its proposal is handled while a vote-verification goroutine fetches it) and is stored.  It says whether the
	// fetch still delivers its answer (the reply won the race against the cancellation) or comes back empty-handed.
	arrive func(h hotstuff.Hash) (stored, answer bool)
}

func (s *qfSender) RequestBlock(_ context.Context, h hotstuff.Hash) (*hotstuff.Block, bool) {
	if s.arrive != nil {
		if stored, answer := s.arrive(h); stored && !answer {
			return nil, false
		}
	}
	replies := map[uint32]*hotstuffpb.Block{}
	id := uint32(1)
	for _, l := range s.lies {
		replies[id] = hotstuffpb.BlockToProto(l)
		id++
	}
	if b, ok := s.remote[h]; ok {
		replies[id] = hotstuffpb.BlockToProto(b)
		id++
	}
	if len(replies) == 0 {
		return nil, false
	}
	pb, ok := network.VerifRequestBlockQF(&hotstuffpb.BlockHash{Hash: h[:]}, replies)
	if !ok {
		return nil, false
	}
	return hotstuffpb.BlockFromProto(pb), true
}

func (s *qfSender) Sub([]hotstuff.ID) (core.Sender, error) { return s, nil }

type scriptedRule struct{ target *hotstuff.Block }

func (r *scriptedRule) CommitRule(*hotstuff.Block) *hotstuff.Block { return r.target }

type absBlock struct{ id, view, parent int }

// genForest creates k blocks; views grow along parent links; forks, equal views on different branches,
// parents outside the universe.
func genForest(rng *rand.Rand, k int) []absBlock {
	blocks := []absBlock{}
	viewOf := map[int]int{0: 0}
	for id := 1; id <= k; id++ {
		parent := 0
		switch r := rng.Intn(10); {
		case r < 1 && id > 1:
			parent = -1
		case r < 7 && id > 1:
			parent = id - 1 - rng.Intn(min(id-1, 3)) // mostly extend a recent block: chains with forks
			if viewOf[parent] < 0 {
				parent = 0
			}
		default:
			parent = rng.Intn(id)
		}
		pv := 0
		if parent >= 0 {
			pv = viewOf[parent]
		} else {
			pv = rng.Intn(3)
		}
		view := pv + 1
		if rng.Intn(3) == 0 {
			view += 1 + rng.Intn(2) // view gap
		}
		viewOf[id] = view
		blocks = append(blocks, absBlock{id, view, parent})
	}
	return blocks
}

func c13(args []string) error {
	fs := flag.NewFlagSet("c13", flag.ExitOnError)
	out := fs.String("out", "", "output ndjson")
	seed := fs.Int64("seed", 1, "seed")
	forests := fs.Int("forests", 400, "random forests")
	maxBlocks := fs.Int("maxblocks", 9, "largest forest")
	nops := fs.Int("ops", 30, "operations per forest")
	_ = fs.Parse(args)
	rng := rand.New(rand.NewSource(*seed))
	o, err := newNDJSON(*out)
	if err != nil {
		return err
	}
	outsideParent := hotstuff.NewBlock(hotstuff.Hash{9}, hotstuff.NewQuorumCert(nil, 0, hotstuff.Hash{}), &clientpb.Batch{}, 0, 7)
	runForest := func(abs []absBlock, script func(ids []int) [][3]int) error {
		// concrete blocks
		blk := map[int]*hotstuff.Block{0: hotstuff.GetGenesis()}
		idOf := map[hotstuff.Hash]int{hotstuff.GetGenesis().Hash(): 0}
		var rows [][3]int
		for _, a := range abs {
			ph := outsideParent.Hash()
			if a.parent >= 0 {
				ph = blk[a.parent].Hash()
			}
			// the certificate a block carries is independent of its parent link (the store must go by the parent link): mostly the
			// parent's, sometimes an older block's, the block's grandparent's, or none
			qh := ph
			switch rng.Intn(8) {
			case 0:
				if a.parent >= 0 && blk[a.parent].Parent() != (hotstuff.Hash{}) {
					qh = blk[a.parent].Parent()
				}
			case 1:
				if len(abs) > 0 {
					if ob, ok := blk[abs[rng.Intn(len(abs))].id]; ok {
						qh = ob.Hash()
					}
				}
			case 2:
				qh = hotstuff.Hash{}
			}
			b := hotstuff.NewBlock(ph, hotstuff.NewQuorumCert(nil, 0, qh),
				&clientpb.Batch{Commands: []*clientpb.Command{{ClientID: 1, SequenceNumber: uint64(a.id), Data: []byte{byte(a.id)}}}},
				hotstuff.View(a.view), hotstuff.ID(1+a.id%4))
			blk[a.id] = b
			idOf[b.Hash()] = a.id
			rows = append(rows, [3]int{a.id, a.view, a.parent})
		}
		// which blocks the peers have
		snd := &qfSender{remote: map[hotstuff.Hash]*hotstuff.Block{}, rng: rng}
		var remote []int
		for _, a := range abs {
			if rng.Intn(3) > 0 {
				snd.remote[blk[a.id].Hash()] = blk[a.id]
				remote = append(remote, a.id)
			}
		}
		// lying peers offer other blocks of the forest and a forged copy for every request
		for i := 0; i < rng.Intn(3); i++ {
			// (a "lie" that happens to be the requested block is a correct answer: it counts as available)
			id := abs[rng.Intn(len(abs))].id
			snd.lies = append(snd.lies, blk[id])
			if _, ok := snd.remote[blk[id].Hash()]; !ok {
				snd.remote[blk[id].Hash()] = blk[id]
				remote = append(remote, id)
			}
		}
		snd.lies = append(snd.lies, outsideParent)
		secs, err := hx.NewSecCluster(hx.SecOpts{N: 1, Scheme: crypto.NameEDDSA, Sender: func(hotstuff.ID) core.Sender { return snd }})
		if err != nil {
			return err
		}
		s := secs[0]
		vs, err := protocol.NewViewStates(s.BC, s.Auth)
		if err != nil {
			return err
		}
		rule := &scriptedRule{}
		cm := consensus.NewCommitter(s.EL, hx.Quiet{}, s.BC, vs, rule)
		var committed, aborted []int
		eventloop.Register(s.EL, func(e hotstuff.CommitEvent) { committed = append(committed, idOf[e.Block.Hash()]) })
		eventloop.Register(s.EL, func(e clientpb.AbortEvent) {
			for _, c := range e.Batch.GetCommands() {
				aborted = append(aborted, int(c.SequenceNumber))
			}
		})
		o.emit(obj{"op": "forest", "blocks": rows, "remote": remote})
		keyed := func() bool {
			for h, bh := range s.BC.VerifStored() {
				if h != bh {
					return false
				}
			}
			return true
		}
		have := func() []int { // ids of the blocks stored locally right now (ground truth for the judge)
			out := []int{}
			for h := range s.BC.VerifStored() {
				if id, ok := idOf[h]; ok {
					out = append(out, id)
				}
			}
			sort.Ints(out)
			return out
		}
		ids := make([]int, len(abs))
		for i, a := range abs {
			ids[i] = a.id
		}
		for _, op := range script(ids) {
			switch op[0] {
			case 0: // store
				s.BC.Store(blk[op[1]])
				o.emit(obj{"op": "store", "b": op[1]})
			case 1: // get (through the fetch path when not local)
				hv := have()
				if rng.Intn(3) == 0 { // the block arrives by another path while it is being fetched
					snd.arrive = func(h hotstuff.Hash) (bool, bool) {
						id, known := idOf[h]
						if !known || h != blk[op[1]].Hash() {
							return false, false
						}
						s.BC.Store(blk[id])
						answer := rng.Intn(2) == 0
						o.emit(obj{"op": "store", "b": id, "during": "fetch", "answered": answer})
						hv = append(hv, id)
						sort.Ints(hv)
						return true, answer
					}
				}
				b, ok := s.BC.Get(blk[op[1]].Hash())
				snd.arrive = nil
				got, hashOK := -1, true
				if ok {
					var known bool
					got, known = idOf[b.Hash()]
					if !known {
						got = -2
					}
					hashOK = b.Hash() == blk[op[1]].Hash()
				}
				o.emit(obj{"op": "get", "h": op[1], "got": got, "hashOK": hashOK, "keyed": keyed(), "have": hv})
			case 2: // local get
				b, ok := s.BC.LocalGet(blk[op[1]].Hash())
				if ok && b.Hash() != blk[op[1]].Hash() {
					o.emit(obj{"op": "get", "h": op[1], "got": -2, "hashOK": false, "keyed": keyed(), "have": have()})
				}
			case 3: // extends (both blocks are handed in by the caller, as the rulesets do)
				hv := have()
				res := s.BC.Extends(blk[op[1]], blk[op[2]])
				o.emit(obj{"op": "extends", "b": op[1], "t": op[2], "res": res, "have": hv})
			case 4: // commit through the real committer
				if blk[op[1]].View() <= vs.CommittedBlock().View() {
					continue // the commit rules only ever name blocks above the committed one
				}
				committed, aborted = nil, nil
				rule.target = blk[op[1]]
				err := cm.TryCommit(blk[op[1]])
				for s.EL.Tick(context.Background()) {
				}
				o.emit(obj{"op": "commit", "b": op[1], "committed": committed, "aborted": aborted, "err": err != nil})
			}
		}
		return nil
	}
	randomScript := func(ids []int) [][3]int {
		var ops [][3]int
		pick := func() int { return ids[rng.Intn(len(ids))] }
		for i := 0; i < *nops; i++ {
			switch r := rng.Intn(20); {
			case r < 8:
				ops = append(ops, [3]int{0, pick(), 0})
			case r < 11:
				ops = append(ops, [3]int{1, pick(), 0})
			case r < 12:
				ops = append(ops, [3]int{2, pick(), 0})
			case r < 17:
				a, b := pick(), pick()
				if rng.Intn(4) == 0 {
					b = 0
				}
				ops = append(ops, [3]int{3, a, b})
			default:
				ops = append(ops, [3]int{4, pick(), 0})
			}
		}
		return ops
	}
	// structured family: equivocation next to a view gap, duplicate stores, commit of either branch
	for variant := 0; variant < 16; variant++ {
		abs := []absBlock{{1, 1, 0}, {2, 2, 1}, {3, 3, 2}, {4, 3, 1}, {5, 4, 3}, {6, 4, 4}, {7, 2, 0}}
		v := variant
		if err := runForest(abs, func(ids []int) [][3]int {
			ops := [][3]int{{0, 1, 0}, {0, 2, 0}}
			first, second := 3, 4
			if v&1 != 0 {
				first, second = 4, 3
			}
			ops = append(ops, [3]int{0, first, 0}, [3]int{0, second, 0})
			if v&2 != 0 {
				ops = append(ops, [3]int{0, first, 0}) // duplicate store
			}
			ops = append(ops, [3]int{0, 7, 0})
			target := 3
			if v&4 != 0 {
				target = 4
			}
			ops = append(ops, [3]int{3, 5, 3}, [3]int{3, 6, 3}, [3]int{3, 5, 4}, [3]int{4, target, 0})
			if v&8 != 0 {
				ops = append(ops, [3]int{0, 5, 0}, [3]int{0, 6, 0}, [3]int{4, 5 + (v>>2)&1, 0})
			}
			return ops
		}); err != nil {
			return err
		}
	}
	for f := 0; f < *forests; f++ {
		k := 2 + rng.Intn(*maxBlocks-1)
		if err := runForest(genForest(rng, k), randomScript); err != nil {
			return err
		}
	}
	return o.close()
}
