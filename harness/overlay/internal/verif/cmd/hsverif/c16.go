//go:build verif

package main

import (
	"flag"
	"fmt"
	"math/rand"

	"github.com/relab/hotstuff"
	"github.com/relab/hotstuff/core"
	"github.com/relab/hotstuff/internal/proto/clientpb"
	"github.com/relab/hotstuff/internal/tree"
	"github.com/relab/hotstuff/internal/verif/hx"
	"github.com/relab/hotstuff/protocol"
	"github.com/relab/hotstuff/protocol/leaderrotation"
	"github.com/relab/hotstuff/security/crypto"
)

func init() { subcommands["c16"] = c16 }

func limbs(v uint64) []int {
	return []int{int(v >> 48 & 0xffff), int(v >> 32 & 0xffff), int(v >> 16 & 0xffff), int(v & 0xffff)}
}

// safely calls GetLeader, reporting a panic instead of crashing the driver.
func getLeader(lr leaderrotation.LeaderRotation, v hotstuff.View) (id int, panicked bool) {
	defer func() {
		if r := recover(); r != nil {
			id, panicked = -1, true
		}
	}()
	return int(lr.GetLeader(v)), false
}

func fakeQC(block *hotstuff.Block, signers []int) hotstuff.QuorumCert {
	sigs := make([]*crypto.ECDSASignature, len(signers))
	for i, s := range signers {
		sigs[i] = crypto.RestoreECDSASignature([]byte{byte(s)}, hotstuff.ID(s))
	}
	return hotstuff.NewQuorumCert(crypto.NewMulti(sigs...), block.View(), block.Hash())
}

func c16(args []string) error {
	fs := flag.NewFlagSet("c16", flag.ExitOnError)
	out := fs.String("out", "", "output ndjson")
	seed := fs.Int64("seed", 1, "seed")
	ncar := fs.Int("carousel", 300, "carousel cases")
	nrep := fs.Int("rep", 100, "reputation query sequences")
	_ = fs.Parse(args)
	rng := rand.New(rand.NewSource(*seed))
	o, err := newNDJSON(*out)
	if err != nil {
		return err
	}
	pk, _ := hx.GenKey(crypto.NameECDSA)
	mkCfg := func(id, n int, opts ...core.RuntimeOption) *core.RuntimeConfig {
		cfg := core.NewRuntimeConfig(hotstuff.ID(id), pk, opts...)
		for i := 1; i <= n; i++ {
			cfg.AddReplica(&hotstuff.ReplicaInfo{ID: hotstuff.ID(i)})
		}
		return cfg
	}
	// ---- stateless schemes: n in 1..64, views 0..4n, and boundary views
	for n := 1; n <= 64; n++ {
		a := leaderrotation.NewRoundRobin(mkCfg(1, n))
		// another replica's instance, which was already asked for leaders while its configuration was still being installed
		// (modules are built first, replicas are added on connection)
		bcfg := core.NewRuntimeConfig(hotstuff.ID(n), pk)
		b := leaderrotation.NewRoundRobin(bcfg)
		for i := 1; i <= n; i++ {
			if i > 1 || n == 1 {
				getLeader(b, hotstuff.View(rng.Intn(50)))
			}
			bcfg.AddReplica(&hotstuff.ReplicaInfo{ID: hotstuff.ID(i)})
		}
		starts := []uint64{0, 1<<16 - 3, 1<<31 - 5, 1<<32 - 7, 1<<53 - 2, 1<<63 - 9, ^uint64(0) - uint64(4*n), uint64(rng.Int63())}
		for _, v0 := range starts {
			var l1, l2 []int
			pan := false
			for i := 0; i <= 4*n; i++ {
				x, p1 := getLeader(a, hotstuff.View(v0+uint64(i)))
				y, p2 := getLeader(b, hotstuff.View(v0+uint64(i)))
				l1, l2, pan = append(l1, x), append(l2, y), pan || p1 || p2
			}
			o.emit(obj{"kind": "rr", "n": n, "limbs": limbs(v0), "leaders": l1, "leaders2": l2, "panic": pan})
		}
		fx := leaderrotation.NewFixed(hotstuff.ID(1 + rng.Intn(n)))
		var got []int
		pan := false
		for _, v := range []uint64{0, 1, uint64(n), 1 << 40, ^uint64(0)} {
			x, p := getLeader(fx, hotstuff.View(v))
			got, pan = append(got, x), pan || p
		}
		want, _ := getLeader(fx, 0)
		o.emit(obj{"kind": "fixed", "leader": want, "got": got, "panic": pan})
		// tree root, from every replica's vantage point
		bf := 2 + rng.Intn(5)
		pos := make([]hotstuff.ID, n)
		for i := range pos {
			pos[i] = hotstuff.ID(i + 1)
		}
		rng.Shuffle(n, func(i, j int) { pos[i], pos[j] = pos[j], pos[i] })
		got, pan = nil, false
		for id := 1; id <= n; id++ {
			t := tree.NewSimple(hotstuff.ID(id), bf, append([]hotstuff.ID{}, pos...))
			lr := leaderrotation.NewTreeBased(mkCfg(id, n, core.WithKauriTree(t)))
			x, p := getLeader(lr, hotstuff.View(rng.Uint64()))
			got, pan = append(got, x), pan || p
		}
		o.emit(obj{"kind": "tree", "n": n, "root": int(pos[0]), "got": got, "panic": pan})
	}
	// ---- carousel and reputation over generated committed chains
	type inst struct {
		sec *hx.Sec
		vs  *protocol.ViewStates
		car *leaderrotation.Carousel
		rep *leaderrotation.RepBased
	}
	mkInst := func(n, chainLength int, seed int64) (*inst, error) {
		secs, err := hx.NewSecCluster(hx.SecOpts{N: 1, Scheme: crypto.NameECDSA, Opts: []core.RuntimeOption{core.WithSharedRandomSeed(seed)}})
		if err != nil {
			return nil, err
		}
		s := secs[0]
		for i := 2; i <= n; i++ {
			s.Cfg.AddReplica(&hotstuff.ReplicaInfo{ID: hotstuff.ID(i)})
		}
		vs, err := protocol.NewViewStates(s.BC, s.Auth)
		if err != nil {
			return nil, err
		}
		return &inst{sec: s, vs: vs,
			car: leaderrotation.NewCarousel(chainLength, s.BC, vs, s.Cfg, hx.Quiet{}),
			rep: leaderrotation.NewRepBased(chainLength, vs, s.Cfg, hx.Quiet{})}, nil
	}
	type blk struct {
		b       *hotstuff.Block
		signers []int
	}
	genChain := func(n, length int) []blk {
		q := hotstuff.QuorumSize(n)
		parent := hotstuff.GetGenesis()
		qc := hotstuff.NewQuorumCert(nil, 0, parent.Hash())
		var chain []blk
		var qcSigners []int
		view := 0
		for i := 0; i < length; i++ {
			view += 1 + rng.Intn(2)*rng.Intn(3)
			b := hotstuff.NewBlock(parent.Hash(), qc, &clientpb.Batch{}, hotstuff.View(view), hotstuff.ID(1+rng.Intn(n)))
			chain = append(chain, blk{b, qcSigners})
			// QC for b, embedded in the next block: a quorum (or more) of distinct configured signers
			perm := rng.Perm(n)
			k := q + rng.Intn(n-q+1)
			qcSigners = nil
			for _, p := range perm[:k] {
				qcSigners = append(qcSigners, p+1)
			}
			qc = fakeQC(b, qcSigners)
			parent = b
		}
		return chain
	}
	for c := 0; c < *ncar; c++ {
		n := 1 + rng.Intn(13)
		if c%17 == 0 {
			n = 14 + rng.Intn(20)
		}
		f := hotstuff.NumFaulty(n)
		chainLength := 2 + rng.Intn(2)
		seed := rng.Int63n(1 << 40)
		length := rng.Intn(9)
		chain := genChain(n, length)
		a, err := mkInst(n, chainLength, seed)
		if err != nil {
			return err
		}
		b, err := mkInst(n, chainLength, seed)
		if err != nil {
			return err
		}
		for _, x := range chain {
			a.sec.BC.Store(x.b)
			b.sec.BC.Store(x.b)
		}
		// heads: every prefix of the chain may be the committed head
		for h := 0; h <= len(chain); h++ {
			head := obj{"view": 0, "signed": false, "signers": []int{}, "authors": []int{}}
			if h > 0 {
				hb := chain[h-1]
				a.vs.UpdateCommittedBlock(hb.b)
				b.vs.UpdateCommittedBlock(hb.b)
				var authors []int
				for i := h - 1; i >= 0 && len(authors) < f; i-- {
					authors = append(authors, int(chain[i].b.Proposer()))
				}
				head = obj{"view": int(hb.b.View()), "signed": hb.b.QuorumCert().Signature() != nil,
					"signers": hb.signers, "authors": authors}
			}
			hv := head["view"].(int)
			for _, round := range []int{hv + chainLength, hv + chainLength + 1, hv + chainLength - 1, hv + 1, rng.Intn(40)} {
				if round < 0 {
					continue
				}
				x, p1 := getLeader(a.car, hotstuff.View(round))
				y, p2 := getLeader(b.car, hotstuff.View(round))
				o.emit(obj{"kind": "carousel", "n": n, "f": f, "chainLength": chainLength, "round": round,
					"roundLimbs": limbs(uint64(round)), "head": head, "got": x, "got2": y, "panic": p1 || p2, "seed": fmt.Sprint(seed)})
			}
		}
	}
	for c := 0; c < *nrep; c++ {
		n := 1 + rng.Intn(13)
		chainLength := 2 + rng.Intn(2)
		seed := rng.Int63n(1 << 40)
		chain := genChain(n, 2+rng.Intn(8))
		a, err := mkInst(n, chainLength, seed)
		if err != nil {
			return err
		}
		b, err := mkInst(n, chainLength, seed)
		if err != nil {
			return err
		}
		var got, got2 []int
		var queries []obj
		pan := false
		h := 0
		for step := 0; step < 30; step++ {
			if h < len(chain) && rng.Intn(3) == 0 {
				a.vs.UpdateCommittedBlock(chain[h].b)
				b.vs.UpdateCommittedBlock(chain[h].b)
				h++
			}
			hv := 0
			if h > 0 {
				hv = int(chain[h-1].b.View())
			}
			view := hv + chainLength + rng.Intn(4) - 1
			if view < 0 {
				view = 0
			}
			x, p1 := getLeader(a.rep, hotstuff.View(view))
			y, p2 := getLeader(b.rep, hotstuff.View(view))
			got, got2, pan = append(got, x), append(got2, y), pan || p1 || p2
			queries = append(queries, obj{"view": view, "headView": hv})
		}
		o.emit(obj{"kind": "rep", "n": n, "queries": queries, "got": got, "got2": got2, "panic": pan})
	}
	return o.close()
}
