//go:build verif

package main

// blsprobe: key-dependent behaviour of the BLS12-381 scheme: fresh clusters, every replica signs, every other verifies.
import (
	"flag"
	"fmt"

	"github.com/relab/hotstuff"
	"github.com/relab/hotstuff/internal/verif/hx"
	"github.com/relab/hotstuff/security/crypto"
)

func init() { subcommands["blsprobe"] = blsProbe }

func blsProbe(args []string) error {
	fs := flag.NewFlagSet("blsprobe", flag.ExitOnError)
	k := fs.Int("clusters", 200, "clusters")
	scheme := fs.String("scheme", crypto.NameBLS12, "scheme")
	_ = fs.Parse(args)
	fail := 0
	for c := 0; c < *k; c++ {
		secs, err := hx.NewSecCluster(hx.SecOpts{N: 4, Scheme: *scheme})
		if err != nil {
			return err
		}
		for v := 1; v <= 1; v++ {
			msg := hotstuff.View(v).ToBytes()
			for _, s := range secs {
				sig, err := s.Auth.Sign(msg)
				if err != nil {
					fmt.Println("sign error", c, s.ID, err)
					continue
				}
				for _, t := range secs {
					if t.ID == s.ID {
						continue
					}
					if err := t.Auth.Verify(sig, msg); err != nil {
						fail++
						fmt.Printf("cluster %d: signature of %d on view %d rejected by %d: %v; pubkey=%x\n", c, s.ID, v, t.ID, err, s.Key.Public().(*crypto.BLS12PublicKey).ToBytes())
					}
				}
			}
		}
	}
	fmt.Println("failures:", fail)
	return nil
}
