//go:build verif

package main

// blsprobe: key-dependent behaviour of the BLS12-381 scheme: fresh clusters, every replica signs, every other verifies.
import (
	"flag"
	"fmt"
	"os"

	"github.com/relab/hotstuff"
	"github.com/relab/hotstuff/internal/verif/hx"
	"github.com/relab/hotstuff/security/crypto"
)

func init() { subcommands["blsprobe"] = blsProbe }

func blsProbe(args []string) error {
	fs := flag.NewFlagSet("blsprobe", flag.ExitOnError)
	k := fs.Int("clusters", 200, "clusters")
	scheme := fs.String("scheme", crypto.NameBLS12, "scheme")
	agg := fs.Int("agg", 0, "aggregate probe: this many rounds of sign x3, combine, verify on one cluster")
	_ = fs.Parse(args)
	if *agg > 0 {
		if os.Getenv("HSVERIF_GCSTRESS") != "" {
			// allocation pressure in the background (does the scheme depend on where the collector runs?)
			go func() {
				var keep [][]byte
				for {
					keep = append(keep, make([]byte, 1<<12))
					if len(keep) > 1<<10 {
						keep = nil
					}
				}
			}()
		}
		var secs []*hx.Sec
		bad := 0
		for i := 0; i < *agg; i++ {
			if i%3 == 0 { // fresh keys every third round
				var err error
				secs, err = hx.NewSecCluster(hx.SecOpts{N: 4, Scheme: *scheme})
				if err != nil {
					return err
				}
			}
			msg := hotstuff.View(i + 1).ToBytes()
			var sigs []hotstuff.QuorumSignature
			for _, s := range secs[1:] {
				sig, err := s.Base.Sign(msg)
				if err != nil {
					return err
				}
				if err := secs[1].Base.Verify(sig, msg); err != nil {
					fmt.Printf("round %d: single signature of %d rejected: %v\n", i, s.ID, err)
				}
				sigs = append(sigs, sig)
			}
			c, err := secs[1].Base.Combine(sigs...)
			if err != nil {
				return err
			}
			if err := secs[1].Base.Verify(c, msg); err != nil {
				bad++
				fmt.Printf("round %d: aggregate of three valid signatures rejected: %v\n", i, err)
				for _, s := range secs[1:] {
					fmt.Printf("  pub %d = %x\n", s.ID, s.Key.Public().(*crypto.BLS12PublicKey).ToBytes())
				}
				fmt.Printf("  msg = %x\n", msg)
			}
		}
		fmt.Println("aggregate failures:", bad, "of", *agg)
		return nil
	}
	fail := 0
	for c := 0; c < *k; c++ {
		secs, err := hx.NewSecCluster(hx.SecOpts{N: 4, Scheme: *scheme})
		if err != nil {
			return err
		}
		for v := 1; v <= 1; v++ {
			msg := hotstuff.View(v).ToBytes()
			for _, s := range secs {
				sig, err := s.Auth.Sign(msg)
				if err != nil {
					fmt.Println("sign error", c, s.ID, err)
					continue
				}
				for _, t := range secs {
					if t.ID == s.ID {
						continue
					}
					if err := t.Auth.Verify(sig, msg); err != nil {
						fail++
						fmt.Printf("cluster %d: signature of %d on view %d rejected by %d: %v; pubkey=%x\n", c, s.ID, v, t.ID, err, s.Key.Public().(*crypto.BLS12PublicKey).ToBytes())
					}
				}
			}
		}
	}
	fmt.Println("failures:", fail)
	return nil
}
