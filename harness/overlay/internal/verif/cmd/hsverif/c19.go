//go:build verif

package main

import (
	"flag"
	"math/rand"

	"github.com/relab/hotstuff"
	"github.com/relab/hotstuff/internal/verif/hx"
	"github.com/relab/hotstuff/security/crypto"
)

func init() { subcommands["c19"] = c19 }

var c19Boundary = []int{1, 7, 8, 9, 16, 17, 255, 256, 257, 300}

func bytesToInts(b []byte) []int {
	out := make([]int, len(b))
	for i, x := range b {
		out[i] = int(x)
	}
	return out
}

func c19Obs(o obj, set hotstuff.IDSet, probe []int) {
	has := make([]bool, len(probe))
	for i, p := range probe {
		has[i] = set.Contains(hotstuff.ID(p))
	}
	// iterate with RangeWhile too and make sure it reports the same as ForEach
	iter := hx.IDs(set)
	var iter2 []int
	set.RangeWhile(func(id hotstuff.ID) bool { iter2 = append(iter2, int(id)); return true })
	if len(iter) != len(iter2) {
		iter = append(iter, -1) // makes the line fail
	} else {
		for i := range iter {
			if iter[i] != iter2[i] {
				iter[i] = -1
			}
		}
	}
	// an iteration that is told to stop after k members visits exactly the first k members
	for k := 1; k <= 3 && k <= len(iter2); k++ {
		var got []int
		set.RangeWhile(func(id hotstuff.ID) bool { got = append(got, int(id)); return len(got) < k })
		if len(got) != k {
			iter = append(iter, -2) // makes the line fail
			break
		}
		for i := range got {
			if got[i] != iter2[i] {
				iter = append(iter, -2)
				break
			}
		}
	}
	o["len"] = set.Len()
	o["iter"] = iter
	o["probe"] = probe
	o["has"] = has
}

func c19Probe(rng *rand.Rand, ids []int) []int {
	probe := append([]int{}, c19Boundary...)
	for _, id := range ids {
		probe = append(probe, id, id+1)
		if id > 1 {
			probe = append(probe, id-1)
		}
	}
	for i := 0; i < 4; i++ {
		probe = append(probe, 1+rng.Intn(320))
	}
	return probe
}

func c19(args []string) error {
	fs := flag.NewFlagSet("c19", flag.ExitOnError)
	out := fs.String("out", "", "output ndjson")
	seed := fs.Int64("seed", 1, "seed")
	nrand := fs.Int("rand", 300, "random add sequences")
	depth := fs.Int("depth", 2, "exhaustive depth over boundary ids")
	twoByte := fs.Int("twobyte", 2000, "number of 2-byte strings (65536 = all)")
	longBytes := fs.Int("longbytes", 300, "random byte strings of length 3..40")
	multiN := fs.Int("multin", 5, "signers for the multi-signature lattice")
	_ = fs.Parse(args)
	rng := rand.New(rand.NewSource(*seed))
	o, err := newNDJSON(*out)
	if err != nil {
		return err
	}
	// 1. insertion sequences
	runSeq := func(ids []int) {
		o.emit(obj{"op": "new"})
		var bf crypto.Bitfield
		for i, id := range ids {
			bf.Add(hotstuff.ID(id))
			line := obj{"op": "add", "id": id, "bytes": bytesToInts(bf.Bytes())}
			c19Obs(line, &bf, c19Probe(rng, ids[:i+1]))
			o.emit(line)
		}
		// rebuild from the byte form
		re := crypto.BitfieldFromBytes(append([]byte{}, bf.Bytes()...))
		line := obj{"op": "frombytes", "in": bytesToInts(bf.Bytes()), "bytes": bytesToInts(re.Bytes())}
		c19Obs(line, &re, c19Probe(rng, ids))
		o.emit(line)
	}
	var rec func(prefix []int, d int)
	rec = func(prefix []int, d int) {
		if len(prefix) > 0 {
			runSeq(prefix)
		}
		if d == 0 {
			return
		}
		for _, id := range c19Boundary {
			rec(append(append([]int{}, prefix...), id), d-1)
		}
	}
	rec(nil, *depth)
	for i := 0; i < *nrand; i++ {
		n := 1 + rng.Intn(40)
		ids := make([]int, n)
		for j := range ids {
			switch rng.Intn(4) {
			case 0:
				ids[j] = c19Boundary[rng.Intn(len(c19Boundary))]
			case 1:
				ids[j] = 1 + rng.Intn(20)
			default:
				ids[j] = 1 + rng.Intn(300)
			}
		}
		runSeq(ids)
	}
	// 1b. a bit-field rebuilt from a prefix of a larger buffer whose tail holds other data (the bytes of a decoded message are a
	// window into a bigger buffer), then grown; and a value copy of a bit-field grown after another copy of it was grown
	for i := 0; i < *nrand/2; i++ {
		l := 3 + rng.Intn(10)
		buf := make([]byte, l)
		for j := range buf {
			buf[j] = byte(1 + rng.Intn(255))
		}
		k := rng.Intn(l)
		bf := crypto.BitfieldFromBytes(buf[:k])
		o.emit(obj{"op": "new"})
		line := obj{"op": "frombytes", "in": bytesToInts(buf[:k]), "bytes": bytesToInts(bf.Bytes())}
		c19Obs(line, &bf, c19Probe(rng, []int{1, 8 * l}))
		o.emit(line)
		var added []int
		for j := 0; j < 1+rng.Intn(3); j++ {
			id := 8*k + 1 + rng.Intn(8*(l-k)+8)
			bf.Add(hotstuff.ID(id))
			added = append(added, id)
			line := obj{"op": "add", "id": id, "bytes": bytesToInts(bf.Bytes())}
			c19Obs(line, &bf, c19Probe(rng, append([]int{1, 8 * l}, added...)))
			o.emit(line)
		}
	}
	for i := 0; i < *nrand/2; i++ {
		o.emit(obj{"op": "new"})
		var base crypto.Bitfield
		var ids []int
		for j := 0; j < 1+rng.Intn(3); j++ {
			id := 1 + rng.Intn(8)
			base.Add(hotstuff.ID(id))
			ids = append(ids, id)
			line := obj{"op": "add", "id": id, "bytes": bytesToInts(base.Bytes())}
			c19Obs(line, &base, c19Probe(rng, ids))
			o.emit(line)
		}
		c1, c2 := base, base
		c1.Add(hotstuff.ID(9 + rng.Intn(40))) // (not logged: it is another set)
		id := 9 + rng.Intn(40)
		c2.Add(hotstuff.ID(id))
		ids = append(ids, id)
		line := obj{"op": "add", "id": id, "bytes": bytesToInts(c2.Bytes())}
		c19Obs(line, &c2, c19Probe(rng, append(ids, seqInts(9, 48)...)))
		o.emit(line)
	}
	// 2. reconstruction from arbitrary byte strings
	fromBytes := func(b []byte) {
		bf := crypto.BitfieldFromBytes(append([]byte{}, b...))
		line := obj{"op": "frombytes", "in": bytesToInts(b), "bytes": bytesToInts(bf.Bytes())}
		probe := append([]int{}, c19Boundary...)
		for i := 0; i < 8; i++ {
			probe = append(probe, 1+rng.Intn(8*len(b)+9))
		}
		c19Obs(line, &bf, probe)
		o.emit(line)
	}
	fromBytes(nil)
	for b := 0; b < 256; b++ {
		fromBytes([]byte{byte(b)})
	}
	if *twoByte >= 65536 {
		for b := 0; b < 65536; b++ {
			fromBytes([]byte{byte(b >> 8), byte(b)})
		}
	} else {
		for i := 0; i < *twoByte; i++ {
			fromBytes([]byte{byte(rng.Intn(256)), byte(rng.Intn(256))})
		}
	}
	for i := 0; i < *longBytes; i++ {
		b := make([]byte, 3+rng.Intn(38))
		for j := range b {
			if rng.Intn(3) > 0 {
				b[j] = byte(rng.Intn(256))
			}
		}
		fromBytes(b)
	}
	// 3. signer lists produced by Sign and Combine
	for _, scheme := range []string{crypto.NameECDSA, crypto.NameEDDSA, crypto.NameBLS12} {
		secs, err := hx.NewSecCluster(hx.SecOpts{N: *multiN, Scheme: scheme})
		if err != nil {
			return err
		}
		msg := []byte("participants")
		single := make([]hotstuff.QuorumSignature, *multiN)
		for i, s := range secs {
			if single[i], err = s.Base.Sign(msg); err != nil {
				return err
			}
			line := obj{"op": "multi", "scheme": scheme, "signers": []int{i + 1}, "parts": 2, "err": false}
			c19Obs(line, single[i].Participants(), []int{1, 2, 3, 4, 5, 6, 7})
			o.emit(line)
		}
		emit := func(signers []int, parts int, sig hotstuff.QuorumSignature, err error) {
			line := obj{"op": "multi", "scheme": scheme, "signers": signers, "parts": parts, "err": err != nil}
			if err == nil {
				c19Obs(line, sig.Participants(), []int{1, 2, 3, 4, 5, 6, 7})
			} else {
				line["len"], line["iter"], line["probe"], line["has"] = 0, []int{}, []int{}, []bool{}
			}
			o.emit(line)
		}
		// flat combination of every multiset of signers of size 0..3 and every subset
		n := *multiN
		for mask := 0; mask < 1<<n; mask++ {
			var idx []int
			for i := 0; i < n; i++ {
				if mask&(1<<i) != 0 {
					idx = append(idx, i)
				}
			}
			rng.Shuffle(len(idx), func(a, b int) { idx[a], idx[b] = idx[b], idx[a] })
			var sigs []hotstuff.QuorumSignature
			var signers []int
			for _, i := range idx {
				sigs = append(sigs, single[i])
				signers = append(signers, i+1)
			}
			sig, err := secs[0].Base.Combine(sigs...)
			emit(signers, len(sigs), sig, err)
			// nested: combine(combine(first half), rest...) when possible
			if len(idx) >= 3 {
				h := 2 + rng.Intn(len(idx)-2)
				inner, err := secs[1].Base.Combine(sigs[:h]...)
				emit(signers[:h], h, inner, err)
				if err != nil {
					continue // (reported by the line just written: distinct signers must combine)
				}
				rest := append([]hotstuff.QuorumSignature{inner}, sigs[h:]...)
				sig, err := secs[0].Base.Combine(rest...)
				emit(signers, len(rest), sig, err)
				// overlap: add one signer of the inner part again
				dup := idx[rng.Intn(h)]
				rest2 := append(append([]hotstuff.QuorumSignature{}, rest...), single[dup])
				sig, err = secs[0].Base.Combine(rest2...)
				emit(append(append([]int{}, signers...), dup+1), len(rest2), sig, err)
			}
		}
		for i := 0; i < n; i++ {
			sig, err := secs[0].Base.Combine(single[i], single[i])
			emit([]int{i + 1, i + 1}, 2, sig, err)
		}
		// the signatures that went into all those combinations are still what they were: one signer each
		for i := range secs {
			line := obj{"op": "multi", "scheme": scheme, "signers": []int{i + 1}, "parts": 2, "err": false}
			c19Obs(line, single[i].Participants(), []int{1, 2, 3, 4, 5, 6, 7})
			o.emit(line)
		}
	}
	return o.close()
}
