//go:build verif

package main

import (
	"flag"

	"github.com/relab/hotstuff"
	"github.com/relab/hotstuff/core"
	"github.com/relab/hotstuff/security/crypto/keygen"
)

func init() { subcommands["c20"] = c20 }

// c20 dumps the real NumFaulty/QuorumSize for n = 1..max (chunked) and the real
// RuntimeConfig.QuorumSize() for memberships of 1..members replicas.
func c20(args []string) error {
	fs := flag.NewFlagSet("c20", flag.ExitOnError)
	out := fs.String("out", "", "output ndjson")
	maxN := fs.Int("max", 20000, "largest n")
	chunk := fs.Int("chunk", 1000, "values per line")
	members := fs.Int("members", 13, "largest membership for RuntimeConfig")
	_ = fs.Parse(args)
	o, err := newNDJSON(*out)
	if err != nil {
		return err
	}
	for n0 := 1; n0 <= *maxN; n0 += *chunk {
		var fsl, qsl []int
		for n := n0; n < n0+*chunk && n <= *maxN; n++ {
			fsl = append(fsl, hotstuff.NumFaulty(n))
			qsl = append(qsl, hotstuff.QuorumSize(n))
		}
		o.emit(obj{"kind": "chunk", "n0": n0, "f": fsl, "q": qsl})
	}
	pk, err := keygen.GenerateECDSAPrivateKey()
	if err != nil {
		return err
	}
	for k := 1; k <= *members; k++ {
		cfg := core.NewRuntimeConfig(1, pk)
		for id := 1; id <= k; id++ {
			cfg.AddReplica(&hotstuff.ReplicaInfo{ID: hotstuff.ID(id)})
		}
		o.emit(obj{"kind": "config", "n": cfg.ReplicaCount(), "q": cfg.QuorumSize()})
	}
	// a configuration that is asked while it grows (modules may query the threshold before the last replica is known; the answer
	// must always be the threshold of the current membership), several queries per size
	grow := core.NewRuntimeConfig(1, pk)
	for id := 1; id <= 2**members; id++ {
		grow.AddReplica(&hotstuff.ReplicaInfo{ID: hotstuff.ID(id)})
		for k := 0; k < 2; k++ {
			o.emit(obj{"kind": "config", "n": grow.ReplicaCount(), "q": grow.QuorumSize()})
		}
	}
	return o.close()
}
