//go:build verif

package main

import (
	"context"
	"flag"
	"math/rand"
	"runtime"
	"sync"
	"time"

	"github.com/relab/hotstuff/internal/proto/clientpb"
)

func init() { subcommands["c15"] = c15; subcommands["c15conc"] = c15conc }

// seqMode says which 64-bit sequence numbers a client's k-th command carries.  The trace names commands by (client, k); the
// mappings are strictly increasing in k, so the order the cache has to go by is the order of k.
//
//	0: k    1: 2^63-4+k (crosses the sign bit)    2: 2^64-64+k (the top of the range)    3: k for k<=2, then 2^63+k (a jump of 2^63)
var seqMode = 0

func seqOf(k int) uint64 {
	switch seqMode {
	case 1:
		return 1<<63 - 4 + uint64(k)
	case 2:
		return ^uint64(0) - 63 + uint64(k)
	case 3:
		if k > 2 {
			return 1<<63 + uint64(k)
		}
	}
	return uint64(k)
}

func kOf(seq uint64) int {
	switch {
	case seqMode == 1:
		return int(seq - (1<<63 - 4))
	case seqMode == 2:
		return int(seq - (^uint64(0) - 63))
	case seqMode == 3 && seq > 1<<63:
		return int(seq - 1<<63)
	}
	return int(seq)
}

func cmdOf(cl, seq int) *clientpb.Command {
	return &clientpb.Command{ClientID: uint32(cl), SequenceNumber: seqOf(seq), Data: []byte{byte(cl), byte(seq)}}
}

func batchToAbs(b *clientpb.Batch) [][2]int {
	out := [][2]int{}
	for _, c := range b.GetCommands() {
		out = append(out, [2]int{int(c.GetClientID()), kOf(c.GetSequenceNumber())})
	}
	return out
}

// tryGet calls Get and cancels it if it does not return promptly.
func tryGet(cache *clientpb.CommandCache, wait time.Duration) (*clientpb.Batch, bool) {
	ctx, cancel := context.WithCancel(context.Background())
	defer cancel()
	type res struct {
		b   *clientpb.Batch
		err error
	}
	ch := make(chan res, 1)
	go func() { b, err := cache.Get(ctx); ch <- res{b, err} }()
	select {
	case r := <-ch:
		return r.b, r.err == nil
	case <-time.After(wait):
		cancel()
		r := <-ch
		if r.err == nil { // it returned a batch after all (slow machine): take it
			return r.b, true
		}
		return nil, false
	}
}

func c15(args []string) error {
	fs := flag.NewFlagSet("c15", flag.ExitOnError)
	out := fs.String("out", "", "output ndjson")
	seed := fs.Int64("seed", 1, "seed")
	seqs := fs.Int("seqs", 150, "operation sequences")
	length := fs.Int("len", 30, "operations per sequence")
	_ = fs.Parse(args)
	rng := rand.New(rand.NewSource(*seed))
	o, err := newNDJSON(*out)
	if err != nil {
		return err
	}
	for s := 0; s < *seqs; s++ {
		bs := 1 + rng.Intn(3)
		nclients := 1 + rng.Intn(3)
		cache := clientpb.NewCommandCache(uint32(bs))
		seqMode = 0
		if s%3 == 2 {
			seqMode = 1 + rng.Intn(3)
		}
		o.emit(obj{"op": "new", "bs": bs, "seqmode": seqMode})
		next := map[int]int{}
		var handed [][][2]int
		var added [][2]int
		for step := 0; step < *length; step++ {
			switch r := rng.Intn(10); {
			case r < 5: // clients send their commands in order, interleaved
				cl := 1 + rng.Intn(nclients)
				next[cl]++
				cache.Add(cmdOf(cl, next[cl]))
				added = append(added, [2]int{cl, next[cl]})
				o.emit(obj{"op": "add", "c": []int{cl, next[cl]}})
			case r < 7: // mark: an earlier batch, or (another leader's block) arbitrary accepted commands
				var batch [][2]int
				if len(handed) > 0 && rng.Intn(2) == 0 {
					batch = handed[rng.Intn(len(handed))]
				} else if len(added) > 0 {
					for i := 0; i < 1+rng.Intn(2); i++ {
						batch = append(batch, added[rng.Intn(len(added))])
					}
				} else {
					continue
				}
				b := &clientpb.Batch{}
				for _, c := range batch {
					b.Commands = append(b.Commands, cmdOf(c[0], c[1]))
				}
				cache.Proposed(b)
				o.emit(obj{"op": "mark", "batch": batch})
			case r == 7: // a request whose caller has already given up (cancelled context): it may hand out a batch or return at once
				ctx, cancel := context.WithCancel(context.Background())
				cancel()
				b, err := cache.Get(ctx)
				abs := [][2]int{}
				if err == nil && b != nil {
					abs = batchToAbs(b)
					handed = append(handed, abs)
				}
				o.emit(obj{"op": "cget", "returned": err == nil && b != nil, "batch": abs})
			default:
				b, ok := tryGet(cache, 25*time.Millisecond)
				abs := [][2]int{}
				if ok {
					abs = batchToAbs(b)
					handed = append(handed, abs)
				}
				o.emit(obj{"op": "get", "returned": ok, "batch": abs})
			}
		}
	}
	return o.close()
}

// c15conc: K producers (one client each, commands in order) and one or two consumers run concurrently.
func c15conc(args []string) error {
	fs := flag.NewFlagSet("c15conc", flag.ExitOnError)
	out := fs.String("out", "", "output ndjson")
	seed := fs.Int64("seed", 1, "seed")
	runs := fs.Int("runs", 30, "runs")
	_ = fs.Parse(args)
	rng := rand.New(rand.NewSource(*seed))
	o, err := newNDJSON(*out)
	if err != nil {
		return err
	}
	for r := 0; r < *runs; r++ {
		bs := 1 + rng.Intn(3)
		k := 1 + rng.Intn(4)
		m := bs * (1 + rng.Intn(6)) // k*m is a multiple of bs
		consumers := 1 + rng.Intn(2)
		total := k * m / bs
		cache := clientpb.NewCommandCache(uint32(bs))
		seqMode = 0
		if r%4 == 3 {
			seqMode = 1 + rng.Intn(3)
		}
		ctx, cancel := context.WithTimeout(context.Background(), 5*time.Second)
		var mu sync.Mutex
		var batches [][][2]int
		var wg, pwg sync.WaitGroup
		hang := false
		start := make(chan struct{})
		for c := 0; c < consumers; c++ {
			wg.Add(1)
			go func() {
				defer wg.Done()
				<-start
				for {
					mu.Lock()
					done := len(batches) >= total
					mu.Unlock()
					if done {
						return
					}
					b, err := cache.Get(ctx)
					if err != nil {
						mu.Lock()
						if len(batches) < total {
							hang = true
						}
						mu.Unlock()
						return
					}
					mu.Lock()
					batches = append(batches, batchToAbs(b))
					full := len(batches) >= total
					mu.Unlock()
					if full {
						cancel() // release the other consumer
						return
					}
				}
			}()
		}
		for p := 1; p <= k; p++ {
			pwg.Add(1)
			go func(p int) {
				defer pwg.Done()
				<-start
				for i := 1; i <= m; i++ {
					cache.Add(cmdOf(p, i))
					if (i+p)%3 == 0 {
						runtime.Gosched()
					}
				}
			}(p)
		}
		close(start)
		pwg.Wait()
		wg.Wait()
		cancel()
		o.emit(obj{"op": "conc", "bs": bs, "k": k, "m": m, "consumers": consumers, "batches": batches, "hang": hang})
	}
	return o.close()
}
