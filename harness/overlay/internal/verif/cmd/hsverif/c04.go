//go:build verif

package main

import (
	"flag"
	"math/rand"

	"github.com/relab/hotstuff"
	"github.com/relab/hotstuff/core"
	"github.com/relab/hotstuff/internal/proto/clientpb"
	"github.com/relab/hotstuff/internal/verif/hx"
	"github.com/relab/hotstuff/protocol/consensus"
	"github.com/relab/hotstuff/protocol/rules"
	"github.com/relab/hotstuff/security/crypto"
)

func init() { subcommands["c04"] = c04 }

// fb is an abstract block: [id, view, parent, qc, qcv]; parent/qc -1 = a block that is never stored.
type fb [5]int

func c04Run(o *ndjson, rs string, blocks []fb, order []int, agg []bool) error {
	opts := []core.RuntimeOption{}
	if rs == "fast" {
		opts = append(opts, core.WithAggregateQC())
	}
	secs, err := hx.NewSecCluster(hx.SecOpts{N: 1, Scheme: crypto.NameEDDSA, Opts: opts, Keys: c04Key})
	if err != nil {
		return err
	}
	s := secs[0]
	missing := hotstuff.NewBlock(hotstuff.Hash{7}, hotstuff.NewQuorumCert(nil, 0, hotstuff.Hash{}), &clientpb.Batch{}, 0, 9)
	blk := map[int]*hotstuff.Block{0: hotstuff.GetGenesis(), -1: missing}
	idOf := map[hotstuff.Hash]int{hotstuff.GetGenesis().Hash(): 0}
	for _, b := range blocks {
		qc := hotstuff.NewQuorumCert(nil, hotstuff.View(b[4]), blk[b[3]].Hash())
		nb := hotstuff.NewBlock(blk[b[2]].Hash(), qc, &clientpb.Batch{Commands: []*clientpb.Command{{ClientID: 1, SequenceNumber: uint64(b[0])}}}, hotstuff.View(b[1]), 1)
		blk[b[0]] = nb
		idOf[nb.Hash()] = b[0]
	}
	var ruler consensus.Ruleset
	lock := func() int { return 0 }
	switch rs {
	case "chained":
		r := rules.NewChainedHotStuff(hx.Quiet{}, s.Cfg, s.BC)
		ruler, lock = r, func() int { return idOf[r.VerifLock().Hash()] }
	case "simple":
		r := rules.NewSimpleHotStuff(hx.Quiet{}, s.Cfg, s.BC)
		ruler, lock = r, func() int { return idOf[r.VerifLock().Hash()] }
	default:
		ruler = rules.NewFastHotStuff(hx.Quiet{}, s.Cfg, s.BC)
	}
	var steps []obj
	for i, id := range order {
		b := blk[id]
		p := hotstuff.ProposeMsg{ID: 1, Block: b}
		if agg[i] {
			p.AggregateQC = &hotstuff.AggregateQC{}
		}
		vote := ruler.VoteRule(b.View(), p)
		s.BC.Store(b)
		c := -1
		if cb := ruler.CommitRule(b); cb != nil {
			c = idOf[cb.Hash()]
		}
		steps = append(steps, obj{"b": id, "vote": vote, "lock": lock(), "commit": c})
	}
	o.emit(obj{"rs": rs, "blocks": blocks, "order": order, "agg": agg, "steps": steps})
	return nil
}

var c04Key []hotstuff.PrivateKey

func c04(args []string) error {
	fs := flag.NewFlagSet("c04", flag.ExitOnError)
	out := fs.String("out", "", "output ndjson")
	seed := fs.Int64("seed", 1, "seed")
	k := fs.Int("k", 3, "exhaustive forest size")
	sample := fs.Int("sample", 0, "if > 0, sample this many (forest, order) pairs of size k+1 instead of exhausting them")
	nrand := fs.Int("rand", 300, "random larger forests")
	_ = fs.Parse(args)
	rng := rand.New(rand.NewSource(*seed))
	o, err := newNDJSON(*out)
	if err != nil {
		return err
	}
	key, _ := hx.GenKey(crypto.NameEDDSA)
	c04Key = []hotstuff.PrivateKey{key}
	rulesets := []string{"chained", "simple", "fast"}
	// exhaustive: every forest with k blocks (parent any earlier block, view above the parent's by 1..2,
	// qc any earlier block or missing), every presentation order
	var forests [][]fb
	var gen func(cur []fb)
	gen = func(cur []fb) {
		id := len(cur) + 1
		if id > *k {
			forests = append(forests, append([]fb{}, cur...))
			return
		}
		viewOf := func(x int) int {
			if x <= 0 {
				return 0
			}
			return cur[x-1][1]
		}
		for parent := 0; parent < id; parent++ {
			for dv := 1; dv <= 2; dv++ {
				for qc := -1; qc < id; qc++ {
					qcv := viewOf(parent) + dv - 1 // label of a QC for a missing block: plausible
					if qc >= 0 {
						qcv = viewOf(qc)
					}
					gen(append(cur, fb{id, viewOf(parent) + dv, parent, qc, qcv}))
				}
			}
		}
	}
	gen(nil)
	ids := make([]int, *k)
	for i := range ids {
		ids[i] = i + 1
	}
	var orders [][]int
	permutations(*k, func(p []int) { orders = append(orders, p) })
	for _, f := range forests {
		for _, ord := range orders {
			for _, rs := range rulesets {
				agg := make([]bool, len(ord))
				if err := c04Run(o, rs, f, ord, agg); err != nil {
					return err
				}
				if rs == "fast" {
					for i := range agg {
						agg[i] = true
					}
					if err := c04Run(o, rs, f, ord, agg); err != nil {
						return err
					}
				}
			}
		}
	}
	_ = sample
	// random larger forests, mostly chains with forks and view gaps; random orders (mostly creation order)
	for r := 0; r < *nrand; r++ {
		n := 4 + rng.Intn(9)
		var f []fb
		viewOf := func(x int) int {
			if x <= 0 {
				return 0
			}
			return f[x-1][1]
		}
		for id := 1; id <= n; id++ {
			parent := id - 1
			if rng.Intn(4) == 0 {
				parent = rng.Intn(id)
			}
			qc := parent
			switch rng.Intn(8) {
			case 0:
				qc = rng.Intn(id)
			case 1:
				qc = -1
			}
			view := viewOf(parent) + 1
			if rng.Intn(5) == 0 {
				view += 1 + rng.Intn(2)
			}
			qcv := view - 1
			if qc >= 0 {
				qcv = viewOf(qc)
			}
			f = append(f, fb{id, view, parent, qc, qcv})
		}
		ord := make([]int, n)
		for i := range ord {
			ord[i] = i + 1
		}
		if rng.Intn(3) == 0 {
			rng.Shuffle(n, func(i, j int) { ord[i], ord[j] = ord[j], ord[i] })
		} else if rng.Intn(2) == 0 { // a missing block: drop one from the presentation
			i := rng.Intn(n)
			ord = append(ord[:i], ord[i+1:]...)
		}
		for _, rs := range rulesets {
			agg := make([]bool, len(ord))
			if rs == "fast" {
				for i := range agg {
					agg[i] = rng.Intn(3) == 0
				}
			}
			if err := c04Run(o, rs, f, ord, agg); err != nil {
				return err
			}
		}
	}
	return o.close()
}
