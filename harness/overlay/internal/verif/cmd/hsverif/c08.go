//go:build verif

package main

import (
	"flag"
	"fmt"
	"math/rand"
	"os"
	"strings"

	"github.com/relab/hotstuff"
	"github.com/relab/hotstuff/core"
	"github.com/relab/hotstuff/internal/verif/hx"
	"github.com/relab/hotstuff/protocol/leaderrotation"
	"github.com/relab/hotstuff/security/crypto"
)

func init() { subcommands["c08"] = c08 }

func bagOf(n *hx.Node) [][2]int {
	out := [][2]int{}
	for _, x := range n.Sync.VerifCollected() {
		out = append(out, [2]int{int(x[0]), int(x[1])})
	}
	return out
}

func c08(args []string) error {
	fs := flag.NewFlagSet("c08", flag.ExitOnError)
	out := fs.String("out", "", "output ndjson")
	seed := fs.Int64("seed", 1, "seed")
	seqs := fs.Int("seqs", 120, "sequences")
	length := fs.Int("len", 25, "messages per sequence")
	_ = fs.Parse(args)
	rng := rand.New(rand.NewSource(*seed))
	o, err := newNDJSON(*out)
	if err != nil {
		return err
	}
	for sq := 0; sq < *seqs; sq++ {
		n := 4
		if sq%3 == 2 {
			n = 7
		}
		agg := sq%2 == 1
		rs := "chainedhotstuff"
		if agg {
			rs = "fasthotstuff"
		}
		scheme := []string{crypto.NameECDSA, crypto.NameEDDSA, crypto.NameBLS12}[(sq/6)%3]
		if n == 7 && scheme == crypto.NameBLS12 && sq%4 != 2 {
			scheme = crypto.NameEDDSA // BLS with 7 replicas is slow: sampled
		}
		const R = 2
		// BLS keys are derived from the seed (the other schemes' generators do not take a seed): a sequence is then replayable
		var keys []hotstuff.PrivateKey
		if scheme == crypto.NameBLS12 {
			for i := 0; i < n; i++ {
				kb := make([]byte, 31)
				rng.Read(kb)
				k := &crypto.BLS12PrivateKey{}
				k.FromBytes(kb)
				keys = append(keys, k)
			}
		}
		nodes, err := hx.NewNodes(hx.NodeOpts{N: n, Scheme: scheme, Ruleset: rs, Keys: keys,
			Leader: func(*core.RuntimeConfig) leaderrotation.LeaderRotation { return leaderrotation.NewFixed(1) }})
		if err != nil {
			return err
		}
		r := nodes[R-1]
		q := hotstuff.QuorumSize(n)
		r.Start()
		r.TakeOut()
		o.emit(obj{"op": "new", "n": n, "q": q, "agg": agg, "self": R, "scheme": scheme})
		genesisQC := hotstuff.NewQuorumCert(nil, 0, hotstuff.GetGenesis().Hash())
		proj := func() obj { return obj{"view": int(r.VS.View()), "bag": bagOf(r)} }
		collect := func(line obj, vc0 int) {
			var tcs []obj
			for _, om := range r.TakeOut() {
				nv, ok := om.Msg.(hotstuff.NewViewMsg)
				if !ok {
					continue
				}
				tc, has := nv.SyncInfo.TC()
				if !has || tc.View() == 0 {
					continue
				}
				// every other replica verifies what R assembled
				valid := true
				for _, other := range nodes {
					if other.ID != R {
						ok, _, _ := verdict(func() error { return other.Auth.VerifyTimeoutCert(tc) })
						valid = valid && ok
					}
				}
				e := obj{"view": int(tc.View()), "signers": hx.IDs(tc.Signature().Participants()), "valid": valid, "aggView": -1, "aggValid": false}
				if ag, has := nv.SyncInfo.AggQC(); has {
					e["aggView"] = int(ag.View())
					av := true
					for _, other := range nodes {
						if other.ID != R {
							ok, _, _ := verdict(func() error { _, err := other.Auth.VerifyAggregateQC(ag); return err })
							av = av && ok
						}
					}
					e["aggValid"] = av
				}
				tcs = append(tcs, e)
			}
			var vcs []int
			for _, vc := range r.ViewChanges[vc0:] {
				vcs = append(vcs, int(vc.View))
			}
			line["tcs"], line["vcs"], line["post"] = tcs, vcs, proj()
			o.emit(line)
		}
		// move R to a starting view by handing it valid certificates (at / behind / ahead of the traffic)
		startView := 1 + rng.Intn(3)
		for int(r.VS.View()) < startView {
			w := r.VS.View()
			var tms []hotstuff.TimeoutMsg
			for _, p := range nodes[:q] {
				s, _ := p.Auth.Sign(w.ToBytes())
				tms = append(tms, hotstuff.TimeoutMsg{ID: p.ID, View: w, ViewSignature: s})
			}
			tc, err := nodes[0].Auth.CreateTimeoutCert(w, tms)
			if err != nil {
				return err
			}
			pre := proj()
			si := hotstuff.NewSyncInfoWith(tc)
			if agg {
				// the aggregate rule needs an aggregate certificate to move
				var tms2 []hotstuff.TimeoutMsg
				for _, p := range nodes[:q] {
					tm := hotstuff.TimeoutMsg{ID: p.ID, View: w, SyncInfo: hotstuff.NewSyncInfoWith(genesisQC)}
					tm.MsgSignature, _ = p.Auth.Sign(tm.ToBytes())
					tms2 = append(tms2, tm)
				}
				ag, err := nodes[0].Auth.CreateAggregateQC(w, tms2)
				if err != nil {
					return err
				}
				si.SetAggQC(ag)
			}
			r.Deliver(hotstuff.NewViewMsg{ID: 1, SyncInfo: si, FromNetwork: true})
			r.TakeOut()
			o.emit(obj{"op": "adv", "pre": pre, "post": proj()})
			if int(r.VS.View()) == int(w) {
				break // could not move (reported through the views seen later)
			}
		}
		syncInfoRejected := false
		hx.InfoHook = func(m string) {
			if strings.Contains(m, "Failed to verify sync info") {
				syncInfoRejected = true
			}
		}
		seen := map[[2]int]hotstuff.TimeoutMsg{} // diagnosis (HSVERIF_LOG): the accepted timeout messages by (sender, view)
		// diagnosis: when R rejects sync info it assembled itself (the certificate it just built does not verify), the line carries the
		// material: public keys, the signatures that went in, how each verifies alone and combined
		postMortem := func(view int) []string {
			if !syncInfoRejected {
				return nil
			}
			syncInfoRejected = false
			out := []string{fmt.Sprintf("sync info rejected by R while handling view %d (scheme %s, n=%d, R=%d, R now in view %d, collector %v)", view, scheme, n, R, r.VS.View(), bagOf(r))}
			for _, x := range nodes {
				if pk, ok := x.Key.Public().(interface{ ToBytes() []byte }); ok {
					out = append(out, fmt.Sprintf("pubkey %d = %x", x.ID, pk.ToBytes()))
				}
			}
			var sigs []hotstuff.QuorumSignature
			for k, tm := range seen {
				if k[1] != view {
					continue
				}
				e1 := nodes[0].Auth.Verify(tm.ViewSignature, hotstuff.View(view).ToBytes())
				e2 := r.Auth.Verify(tm.ViewSignature, hotstuff.View(view).ToBytes())
				out = append(out, fmt.Sprintf("from %d: participants %v sig %x verify@1=%v verify@R=%v", k[0], hx.IDs(tm.ViewSignature.Participants()), tm.ViewSignature.ToBytes(), e1, e2))
				sigs = append(sigs, tm.ViewSignature)
			}
			if len(sigs) >= 2 {
				c, err := nodes[0].Auth.Combine(sigs...)
				if err != nil {
					return append(out, "combine: "+err.Error())
				}
				for _, x := range nodes {
					out = append(out, fmt.Sprintf("combined %v verify@%d = %v", hx.IDs(c.Participants()), x.ID, x.Auth.Verify(c, hotstuff.View(view).ToBytes())))
				}
			}
			if os.Getenv("HSVERIF_LOG") != "" {
				for _, l := range out {
					fmt.Fprintln(os.Stderr, "[postmortem] "+l)
				}
			}
			return out
		}
		hotView := int(r.VS.View()) + []int{0, 1, 2, 5, 11, 12, 30}[rng.Intn(7)]
		for m := 0; m < *length; m++ {
			cur := int(r.VS.View())
			if rng.Intn(8) == 0 { // R's own timer
				pre := proj()
				vc0 := len(r.ViewChanges)
				r.FireTimeout()
				for _, om := range r.Out {
					if tm, ok := om.Msg.(hotstuff.TimeoutMsg); ok {
						seen[[2]int{R, int(tm.View)}] = tm
					}
				}
				line := obj{"op": "tmo", "from": R, "view": cur, "ok": true, "msgok": true, "local": true, "pre": pre}
				if d := postMortem(cur); d != nil {
					line["diag"] = d
				}
				collect(line, vc0)
				continue
			}
			s := 1 + rng.Intn(n)
			if s == R {
				s = 1 + (s % n)
			}
			// (besides the views around R's own: views far ahead of it -- R may lag by any distance -- and a "hot" view of the sequence
			// that many senders time out in)
			v := cur + []int{0, 0, 0, 0, 1, 1, -1, 2, 5, 11, 12, 40}[rng.Intn(12)]
			if rng.Intn(3) == 0 {
				v = hotView + rng.Intn(2) // (two neighbouring hot views: the quorum of the later one may complete first)
			}
			if v < 1 {
				v = 1
			}
			p := nodes[s-1]
			kind := []string{"good", "good", "good", "good", "good", "wrongkey", "wrongview", "nil"}[rng.Intn(8)]
			tm := hotstuff.TimeoutMsg{ID: hotstuff.ID(s), View: hotstuff.View(v), SyncInfo: hotstuff.NewSyncInfoWith(genesisQC)}
			switch kind {
			case "good":
				tm.ViewSignature, _ = p.Auth.Sign(hotstuff.View(v).ToBytes())
			case "wrongkey":
				tm.ViewSignature, _ = nodes[s%n].Auth.Sign(hotstuff.View(v).ToBytes())
			case "wrongview":
				tm.ViewSignature, _ = p.Auth.Sign(hotstuff.View(v + 1).ToBytes())
			}
			msgok := true
			if agg {
				switch rng.Intn(8) {
				case 0:
					msgok = false // unsigned message
				case 1:
					msgok = false
					other := tm
					other.View++
					tm.MsgSignature, _ = p.Auth.Sign(other.ToBytes())
				default:
					tm.MsgSignature, _ = p.Auth.Sign(tm.ToBytes())
				}
			}
			pre := proj()
			vc0 := len(r.ViewChanges)
			pan := ""
			func() {
				defer func() {
					if x := recover(); x != nil {
						pan = panicSite()
					}
				}()
				r.Deliver(tm)
			}()
			if kind == "good" && msgok {
				if _, dup := seen[[2]int{s, v}]; !dup {
					seen[[2]int{s, v}] = tm
				}
			}
			line := obj{"op": "tmo", "from": s, "view": v, "ok": kind == "good", "msgok": msgok, "sig": kind, "local": false, "pre": pre, "panic": pan}
			if d := postMortem(v); d != nil {
				line["diag"] = d
			}
			if kind == "good" {
				// diagnosis: does R (still) verify this correctly made signature when asked again, and do the others?
				if err := r.Auth.Verify(tm.ViewSignature, hotstuff.View(v).ToBytes()); err != nil {
					d := []string{fmt.Sprintf("R cannot verify the correctly made view signature of replica %d for view %d: %v", s, v, err)}
					for _, x := range nodes {
						if x.ID != R {
							d = append(d, fmt.Sprintf("verify@%d = %v", x.ID, x.Auth.Verify(tm.ViewSignature, hotstuff.View(v).ToBytes())))
						}
					}
					if pk, ok := p.Key.Public().(interface{ ToBytes() []byte }); ok {
						d = append(d, fmt.Sprintf("pubkey %d = %x sig = %x", s, pk.ToBytes(), tm.ViewSignature.ToBytes()))
					}
					line["diag2"] = d
				}
			}
			collect(line, vc0)
		}
		r.Stop()
	}
	return o.close()
}
