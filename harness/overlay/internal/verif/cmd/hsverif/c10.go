//go:build verif

package main

import (
	"bufio"
	"context"
	"encoding/json"
	"flag"
	"fmt"
	"math/rand"
	"net"
	"os"
	"time"

	"github.com/relab/gorums"
	"github.com/relab/hotstuff"
	"github.com/relab/hotstuff/core"
	"github.com/relab/hotstuff/internal/proto/clientpb"
	"github.com/relab/hotstuff/internal/proto/hotstuffpb"
	"github.com/relab/hotstuff/internal/proto/kauripb"
	"github.com/relab/hotstuff/internal/tree"
	"github.com/relab/hotstuff/internal/verif/hx"
	"github.com/relab/hotstuff/security/crypto"
	"github.com/relab/hotstuff/server"
	"google.golang.org/grpc/metadata"
	"google.golang.org/grpc/peer"
	"google.golang.org/protobuf/types/known/timestamppb"
)

func init() { subcommands["c10"] = c10 }

type wireCase struct {
	ID       int            `json:"id"`
	M        map[string]any `json:"m"`
	Verifies bool           `json:"verifies"`
}

type c10env struct {
	scheme     string
	kauriPhase string
	cache      bool
	primedPre  obj
	fetchable  *hotstuff.Block
	n, q       int
	nodes      []*hx.Node
	r          *hx.Node // replica under test (id 2)
	svc        interface {
		Propose(gorums.ServerCtx, *hotstuffpb.Proposal)
		Vote(gorums.ServerCtx, *hotstuffpb.PartialCert)
		NewView(gorums.ServerCtx, *hotstuffpb.SyncInfo)
		Timeout(gorums.ServerCtx, *hotstuffpb.TimeoutMsg)
		RequestBlock(gorums.ServerCtx, *hotstuffpb.BlockHash) (*hotstuffpb.Block, error)
	}
	known *hotstuff.Block
	rng   *rand.Rand
	state string
}

var blsSigner *hx.Sec

func validBLSPoint(content []byte) []byte {
	if blsSigner == nil {
		secs, err := hx.NewSecCluster(hx.SecOpts{N: 1, Scheme: crypto.NameBLS12})
		if err != nil {
			panic(err)
		}
		blsSigner = secs[0]
	}
	s, err := blsSigner.Base.Sign(content)
	if err != nil {
		panic(err)
	}
	return s.ToBytes()
}

func ctxFrom(id int) gorums.ServerCtx {
	ctx := peer.NewContext(context.Background(), &peer.Peer{Addr: &net.TCPAddr{IP: net.IPv4(127, 0, 0, 1), Port: 1000 + id}})
	ctx = metadata.NewIncomingContext(ctx, metadata.Pairs("id", fmt.Sprint(id)))
	return gorums.ServerCtx{Context: ctx}
}

// kauriPhase (Kauri only): "round" -- the node is in its first aggregation round; "fresh" -- it has not started; "waiting" -- it has
// started, but its first round is still waiting for the connection event
func newC10Env(scheme string, cache bool, state string, rng *rand.Rand, kauri bool, agg bool, kauriPhase string) (*c10env, error) {
	const n = 4
	opts := []core.RuntimeOption{}
	ruleset := "chainedhotstuff"
	if agg {
		ruleset = "fasthotstuff" // aggregate timeout rule: aggregate QCs in sync info and proposals are verified
	}
	if cache {
		opts = append(opts, core.WithCache(50))
	}
	no := hx.NodeOpts{N: n, Scheme: scheme, Ruleset: ruleset, Opts: opts}
	if kauri {
		no.Kauri = func(id hotstuff.ID) *tree.Tree {
			t := tree.NewSimple(id, 2, tree.DefaultTreePos(n))
			t.SetTreeHeightWaitTime(time.Hour)
			return t
		}
	}
	nodes, err := hx.NewNodes(no)
	if err != nil {
		return nil, err
	}
	e := &c10env{scheme: scheme, cache: cache, n: n, q: hotstuff.QuorumSize(n), nodes: nodes, r: nodes[1], rng: rng, state: state}
	for _, x := range nodes {
		for c := 1; c <= 200; c++ {
			x.Cache.Add(&clientpb.Command{ClientID: 1, SequenceNumber: uint64(c)})
		}
	}
	srv := server.NewServer(e.r.EL, hx.Quiet{}, e.r.Cfg, e.r.BC)
	e.svc = server.VerifService(srv)
	e.kauriPhase = kauriPhase
	if kauri && kauriPhase == "round" {
		e.r.Deliver(hotstuff.ReplicaConnectedEvent{}) // Kauri builds its tree on this event; without it no aggregation round starts
	}
	if !kauri || kauriPhase != "fresh" {
		e.r.Start()
	}
	// a block every replica knows, certified by a quorum
	g := hotstuff.GetGenesis()
	e.known = hotstuff.NewBlock(g.Hash(), hotstuff.NewQuorumCert(nil, 0, g.Hash()), &clientpb.Batch{Commands: []*clientpb.Command{{ClientID: 3, SequenceNumber: 1}}}, 1, 2)
	if kauri {
		// R leads view 1: its own proposal opens the aggregation round; contributions are votes for that block
		for _, om := range e.r.Out {
			if m, ok := om.Msg.(hotstuff.ProposeMsg); ok {
				e.known = m.Block
			}
		}
	}
	for _, x := range nodes {
		x.BC.Store(e.known)
	}
	// a block only the peers have: R can fetch it
	e.fetchable = hotstuff.NewBlock(g.Hash(), hotstuff.NewQuorumCert(nil, 0, g.Hash()), &clientpb.Batch{Commands: []*clientpb.Command{{ClientID: 3, SequenceNumber: 2}}}, e.known.View()+1, 3)
	for _, x := range nodes {
		if x.ID != e.r.ID {
			x.BC.Store(e.fetchable)
		}
	}
	e.r.Fetch = func(by hotstuff.ID, h hotstuff.Hash) (*hotstuff.Block, bool) {
		for _, x := range nodes {
			if x.ID != by {
				if b, ok := x.BC.LocalGet(h); ok {
					return b, true
				}
			}
		}
		return nil, false
	}
	switch state {
	case "midrun": // R has seen a certificate for the known block and moved on
		e.r.Deliver(hotstuff.NewViewMsg{ID: 1, SyncInfo: hotstuff.NewSyncInfoWith(e.realQC()), FromNetwork: true})
	case "timedout": // R's timer fired twice
		e.r.FireTimeout()
		e.r.FireTimeout()
	case "advanced": // R entered a new view on a timeout certificate and has not voted in it: it can vote now
		cur := e.r.VS.View()
		var tms []hotstuff.TimeoutMsg
		gqc := hotstuff.NewQuorumCert(nil, 0, g.Hash())
		for _, x := range nodes[:e.q] {
			tm := hotstuff.TimeoutMsg{ID: x.ID, View: cur, SyncInfo: hotstuff.NewSyncInfoWith(gqc)}
			tm.ViewSignature, _ = x.Auth.Sign(cur.ToBytes())
			tm.MsgSignature, _ = x.Auth.Sign(tm.ToBytes())
			tms = append(tms, tm)
		}
		if tc, err := nodes[0].Auth.CreateTimeoutCert(cur, tms); err == nil {
			si := hotstuff.NewSyncInfoWith(tc)
			if agg {
				if a, err := nodes[0].Auth.CreateAggregateQC(cur, tms); err == nil {
					si.SetAggQC(a)
				}
			}
			e.r.Deliver(hotstuff.NewViewMsg{ID: 1, SyncInfo: si, FromNetwork: true})
		}
		if e.r.VS.View() == cur || e.r.Voter.VerifLastVotedView() >= e.r.VS.View() {
			return nil, fmt.Errorf("c10: state \"advanced\" not reached (view %d, last voted %d)", e.r.VS.View(), e.r.Voter.VerifLastVotedView())
		}
	}
	e.r.TakeOut()
	return e, nil
}

func (e *c10env) realQC() hotstuff.QuorumCert {
	var pcs []hotstuff.PartialCert
	for _, x := range e.nodes[:e.q] {
		pc, err := x.Auth.CreatePartialCert(e.known)
		if err != nil {
			panic(err)
		}
		pcs = append(pcs, pc)
	}
	qc, err := e.nodes[0].Auth.CreateQuorumCert(e.known, pcs)
	if err != nil {
		panic(err)
	}
	return qc
}

// sig instantiates a signature variant for `content`, as sent by replica `from`.
func (e *c10env) sig(variant string, content []byte, from int) *hotstuffpb.QuorumSignature {
	signBy := func(ids []int, msg []byte) hotstuff.QuorumSignature {
		var sigs []hotstuff.QuorumSignature
		for _, id := range ids {
			s, err := e.nodes[id-1].Auth.Sign(msg)
			if err != nil {
				panic(err)
			}
			sigs = append(sigs, s)
		}
		if len(sigs) == 1 {
			return sigs[0]
		}
		s, err := e.nodes[0].Auth.Combine(sigs...)
		if err != nil {
			panic(err)
		}
		return s
	}
	one := func(b []byte, signer uint32) *hotstuffpb.QuorumSignature {
		switch e.scheme {
		case crypto.NameEDDSA:
			return &hotstuffpb.QuorumSignature{Sig: &hotstuffpb.QuorumSignature_EDDSASigs{EDDSASigs: &hotstuffpb.EDDSAMultiSignature{Sigs: []*hotstuffpb.EDDSASignature{{Signer: signer, Sig: b}}}}}
		case crypto.NameBLS12:
			var bf crypto.Bitfield
			bf.Add(hotstuff.ID(signer))
			return &hotstuffpb.QuorumSignature{Sig: &hotstuffpb.QuorumSignature_BLS12Sig{BLS12Sig: &hotstuffpb.BLS12AggregateSignature{Sig: b, Participants: bf.Bytes()}}}
		}
		return &hotstuffpb.QuorumSignature{Sig: &hotstuffpb.QuorumSignature_ECDSASigs{ECDSASigs: &hotstuffpb.ECDSAMultiSignature{Sigs: []*hotstuffpb.ECDSASignature{{Signer: signer, Sig: b}}}}}
	}
	garbage := make([]byte, 96)
	e.rng.Read(garbage)
	switch variant {
	case "absent":
		return nil
	case "empty":
		return &hotstuffpb.QuorumSignature{}
	case "none0":
		switch e.scheme {
		case crypto.NameEDDSA:
			return &hotstuffpb.QuorumSignature{Sig: &hotstuffpb.QuorumSignature_EDDSASigs{EDDSASigs: &hotstuffpb.EDDSAMultiSignature{}}}
		case crypto.NameBLS12:
			return &hotstuffpb.QuorumSignature{Sig: &hotstuffpb.QuorumSignature_BLS12Sig{BLS12Sig: &hotstuffpb.BLS12AggregateSignature{}}}
		}
		return &hotstuffpb.QuorumSignature{Sig: &hotstuffpb.QuorumSignature_ECDSASigs{ECDSASigs: &hotstuffpb.ECDSAMultiSignature{}}}
	case "good1":
		return hotstuffpb.QuorumSignatureToProto(signBy([]int{from}, content))
	case "goodq":
		return hotstuffpb.QuorumSignatureToProto(signBy(seqInts(1, e.q), content))
	case "bad1":
		return one(garbage[:70], uint32(from))
	case "unknown1":
		return one(signBy([]int{from}, content).ToBytes(), 99)
	case "wrongmsg":
		return hotstuffpb.QuorumSignatureToProto(signBy([]int{from}, append([]byte("other"), content...)))
	case "nilelem":
		switch e.scheme {
		case crypto.NameEDDSA:
			return &hotstuffpb.QuorumSignature{Sig: &hotstuffpb.QuorumSignature_EDDSASigs{EDDSASigs: &hotstuffpb.EDDSAMultiSignature{Sigs: []*hotstuffpb.EDDSASignature{nil}}}}
		default:
			return &hotstuffpb.QuorumSignature{Sig: &hotstuffpb.QuorumSignature_ECDSASigs{ECDSASigs: &hotstuffpb.ECDSAMultiSignature{Sigs: []*hotstuffpb.ECDSASignature{nil}}}}
		}
	case "blsbad":
		var bf crypto.Bitfield
		bf.Add(hotstuff.ID(from))
		return &hotstuffpb.QuorumSignature{Sig: &hotstuffpb.QuorumSignature_BLS12Sig{BLS12Sig: &hotstuffpb.BLS12AggregateSignature{Sig: garbage, Participants: bf.Bytes()}}}
	case "blsnobits", "blsbig":
		pt := validBLSPoint(content) // a point of the curve's subgroup (a real BLS signature of some key)
		if e.scheme == crypto.NameBLS12 {
			pt = signBy([]int{from}, content).ToBytes()
		}
		parts := []byte{}
		if variant == "blsbig" {
			parts = make([]byte, 4096)
			for i := range parts {
				parts[i] = 0xff
			}
		}
		return &hotstuffpb.QuorumSignature{Sig: &hotstuffpb.QuorumSignature_BLS12Sig{BLS12Sig: &hotstuffpb.BLS12AggregateSignature{Sig: pt, Participants: parts}}}
	}
	panic("unknown signature variant " + variant)
}

func (e *c10env) hash(class string) []byte {
	switch class {
	case "empty":
		return nil
	case "short":
		return []byte{1, 2, 3, 4, 5}
	case "zero":
		return make([]byte, 32)
	case "genesis":
		h := hotstuff.GetGenesis().Hash()
		return h[:]
	case "known":
		h := e.known.Hash()
		return h[:]
	case "fetchable":
		h := e.fetchable.Hash()
		return h[:]
	}
	b := make([]byte, 32)
	e.rng.Read(b)
	return b
}

func (e *c10env) view(class string) uint64 {
	cur := uint64(e.r.VS.View())
	switch class {
	case "zero":
		return 0
	case "below":
		return cur - 1
	case "cur":
		return cur
	case "next":
		return cur + 1
	case "far":
		return cur + 11
	case "max":
		return ^uint64(0)
	}
	return cur
}

func (e *c10env) qc(m map[string]any, from int) *hotstuffpb.QuorumCert {
	if p, _ := m["present"].(bool); !p {
		return nil
	}
	v := map[string]uint64{"zero": 0, "match": uint64(e.known.View()), "next": uint64(e.known.View()) + 1}[m["view"].(string)]
	return &hotstuffpb.QuorumCert{Sig: e.sig(m["sig"].(string), e.known.ToBytes(), from), Hash: e.hash(m["hash"].(string)), View: v}
}

func (e *c10env) tc(m map[string]any, from int) *hotstuffpb.TimeoutCert {
	if p, _ := m["present"].(bool); !p {
		return nil
	}
	v := map[string]uint64{"zero": 0, "cur": uint64(e.r.VS.View()), "far": uint64(e.r.VS.View()) + 50}[m["view"].(string)]
	return &hotstuffpb.TimeoutCert{Sig: e.sig(m["sig"].(string), hotstuff.View(v).ToBytes(), from), View: v}
}

func (e *c10env) agg(shape string, from int) *hotstuffpb.AggQC {
	cur := e.r.VS.View()
	gqc := hotstuff.NewQuorumCert(nil, 0, hotstuff.GetGenesis().Hash())
	mk := func(view hotstuff.View, ids []int, mixed bool) hotstuff.AggregateQC {
		var tms []hotstuff.TimeoutMsg
		for i, id := range ids {
			tm := hotstuff.TimeoutMsg{ID: hotstuff.ID(id), View: view, SyncInfo: hotstuff.NewSyncInfoWith(gqc)}
			if mixed && i%2 == 1 {
				tm.View = view + 1
			}
			tm.MsgSignature, _ = e.nodes[id-1].Auth.Sign(tm.ToBytes())
			tms = append(tms, tm)
		}
		a, err := e.nodes[0].Auth.CreateAggregateQC(view, tms)
		if err != nil {
			panic(err)
		}
		return a
	}
	switch shape {
	case "absent":
		return nil
	case "emptymap":
		return &hotstuffpb.AggQC{QCs: map[uint32]*hotstuffpb.QuorumCert{}, Sig: e.sig("goodq", cur.ToBytes(), from), View: uint64(cur)}
	case "nosig":
		a := hotstuffpb.AggregateQCToProto(mk(cur, seqInts(1, e.q), false))
		a.Sig = nil
		return a
	case "good":
		return hotstuffpb.AggregateQCToProto(mk(cur, seqInts(1, e.q), false))
	case "badsig":
		a := hotstuffpb.AggregateQCToProto(mk(cur, seqInts(1, e.q), false))
		a.Sig = e.sig("bad1", nil, from)
		return a
	case "mixed":
		return hotstuffpb.AggregateQCToProto(mk(cur, seqInts(1, e.q), true))
	}
	panic("agg shape " + shape)
}

func (e *c10env) syncInfo(m map[string]any, from int) *hotstuffpb.SyncInfo {
	return &hotstuffpb.SyncInfo{QC: e.qc(m["qc"].(map[string]any), from), TC: e.tc(m["tc"].(map[string]any), from), AggQC: e.agg(m["agg"].(string), from)}
}

func (e *c10env) proj() obj {
	n := e.r
	hqc := n.VS.HighQC()
	h := hqc.BlockHash()
	lock := ""
	if b := hx.LockOf(n.Rules); b != nil {
		lh := b.Hash()
		lock = hx8(lh[:])
	}
	ch := n.VS.CommittedBlock().Hash()
	p := obj{"view": uint64(n.VS.View()), "hqc": hx8(h[:]), "hqcv": uint64(hqc.View()), "htc": uint64(n.VS.HighTC().View()),
		"lock": lock, "committed": hx8(ch[:]), "lv": uint64(n.Voter.VerifLastVotedView())}
	if n.Kauri != nil {
		// the aggregation round is replica state too: whose contributions were merged, who is in the partial aggregate
		p["kauriSenders"], p["kauriAggIDs"] = fmt.Sprint(n.Kauri.VerifSenders()), fmt.Sprint(n.Kauri.VerifAgg())
	}
	return p
}

// apply sends one grammar case to the replica; returns the panic site ("" if none).
func (e *c10env) apply(c wireCase) (pan string) {
	defer func() {
		if x := recover(); x != nil {
			pan = fmt.Sprint(x) + " @ " + panicSite()
		}
	}()
	m := c.M
	from := 1 + e.rng.Intn(e.n)
	if from == int(e.r.ID) {
		from = 1
	}
	// the peer id is what the connection metadata says: mostly the signer's, sometimes 0 or an id outside the configuration
	claimed := from
	switch e.rng.Intn(16) {
	case 0:
		claimed = 0
	case 1:
		claimed = e.n + 3
	}
	switch m["rpc"].(string) {
	case "vote":
		content := e.known.ToBytes()
		if m["hash"].(string) == "fetchable" {
			content = e.fetchable.ToBytes()
		}
		e.svc.Vote(ctxFrom(claimed), &hotstuffpb.PartialCert{Sig: e.sig(m["sig"].(string), content, from), Hash: e.hash(m["hash"].(string))})
	case "newview":
		e.svc.NewView(ctxFrom(claimed), e.syncInfo(m["si"].(map[string]any), from))
	case "timeout":
		v := e.view(m["view"].(string))
		tm := &hotstuffpb.TimeoutMsg{View: v, SyncInfo: e.syncInfo(m["si"].(map[string]any), from), ViewSig: e.sig(m["viewsig"].(string), hotstuff.View(v).ToBytes(), from)}
		back := hotstuffpb.TimeoutMsgFromProto(&hotstuffpb.TimeoutMsg{View: v, SyncInfo: tm.SyncInfo})
		back.ID = hotstuff.ID(from)
		tm.MsgSig = e.sig(m["msgsig"].(string), back.ToBytes(), from)
		if e.rng.Intn(2) == 0 {
			// primed: the same sender's well-formed timeout for that view (both signatures good) has arrived just before -- a copy
			// of a message that is already held is handled on other paths than a first message
			twin := &hotstuffpb.TimeoutMsg{View: v, SyncInfo: tm.SyncInfo, ViewSig: e.sig("good1", hotstuff.View(v).ToBytes(), from),
				MsgSig: e.sig("good1", back.ToBytes(), from)}
			e.svc.Timeout(ctxFrom(claimed), twin)
			e.r.Drain()
			e.primedPre = e.proj() // the state "before" the message under test is the state after its well-formed twin
		}
		e.svc.Timeout(ctxFrom(claimed), tm)
	case "propose":
		bm := m["block"].(map[string]any)
		p := &hotstuffpb.Proposal{AggQC: e.agg(m["agg"].(string), from)}
		if pr, _ := bm["present"].(bool); pr {
			v := e.view(bm["view"].(string))
			if ld, _ := m["leader"].(bool); ld {
				from = int(e.r.LR.GetLeader(hotstuff.View(v)))
				if from == int(e.r.ID) || from < 1 || from > e.n {
					from = 1
				}
			}
			b := &hotstuffpb.Block{Parent: e.hash(bm["parent"].(string)), QC: e.qc(bm["qc"].(map[string]any), from), View: v, Proposer: uint32(from)}
			switch bm["cmds"].(string) {
			case "empty":
				b.Commands = &clientpb.Batch{}
			case "some":
				b.Commands = &clientpb.Batch{Commands: []*clientpb.Command{{ClientID: 8, SequenceNumber: uint64(c.ID), Data: []byte("x")}}}
			}
			if bm["ts"].(string) == "set" {
				b.Timestamp = timestamppb.Now()
			}
			p.Block = b
		}
		e.svc.Propose(ctxFrom(claimed), p)
	case "fetch":
		_, _ = e.svc.RequestBlock(ctxFrom(claimed), &hotstuffpb.BlockHash{Hash: e.hash(m["hash"].(string))})
	case "contribution":
		// "cur": the view of the aggregation round the node is in (contributions for other views are ignored at once)
		cur := uint64(e.r.VS.View())
		if e.r.Kauri != nil {
			cur = uint64(e.r.Kauri.VerifView())
		}
		v := map[string]uint64{"zero": 0, "cur": cur, "max": ^uint64(0)}[m["view"].(string)]
		e.r.EL.AddEvent(&kauripb.Contribution{ID: uint32(from), View: v, Signature: e.sig(m["sig"].(string), e.known.ToBytes(), from)})
	}
	e.r.Drain()
	return ""
}

func (e *c10env) settle() (pan string) {
	defer func() {
		if x := recover(); x != nil {
			pan = fmt.Sprint(x) + " @ " + panicSite()
		}
	}()
	e.r.Deliver(hotstuff.ProposeMsg{ID: e.known.Proposer(), Block: e.known})
	return ""
}

func c10(args []string) error {
	fs := flag.NewFlagSet("c10", flag.ExitOnError)
	out := fs.String("out", "", "output ndjson")
	casesFile := fs.String("cases", "", "wire_messages.ndjson written by TLC")
	seed := fs.Int64("seed", 1, "seed")
	sample := fs.Int("sample", 4000, "number of grammar cases per configuration (0 = all)")
	configs := fs.String("configs", "ecdsa:0:0,eddsa:1:1,bls12:1:0", "scheme:cache:aggregateQC configurations")
	_ = fs.Parse(args)
	rng := rand.New(rand.NewSource(*seed))
	o, err := newNDJSON(*out)
	if err != nil {
		return err
	}
	var cs []wireCase
	f, err := os.Open(*casesFile)
	if err != nil {
		return err
	}
	sc := bufio.NewScanner(f)
	sc.Buffer(make([]byte, 1<<20), 1<<24)
	for sc.Scan() {
		var c wireCase
		if err := json.Unmarshal(sc.Bytes(), &c); err != nil {
			return err
		}
		cs = append(cs, c)
	}
	f.Close()
	states := []string{"fresh", "midrun", "timedout", "advanced"}
	for _, cfg := range splitComma(*configs) {
		parts := []string{}
		cur := ""
		for _, ch := range cfg + ":" {
			if ch == ':' {
				parts = append(parts, cur)
				cur = ""
			} else {
				cur += string(ch)
			}
		}
		scheme := parts[0]
		cacheOn, aggOn := 0, 0
		fmt.Sscanf(parts[1], "%d", &cacheOn)
		if len(parts) > 2 {
			fmt.Sscanf(parts[2], "%d", &aggOn)
		}
		var idx []int
		byRPC := map[string][]int{}
		for i, c := range cs {
			byRPC[c.M["rpc"].(string)] = append(byRPC[c.M["rpc"].(string)], i)
		}
		for _, rpc := range []string{"fetch", "contribution", "vote", "newview", "timeout", "propose"} {
			list := byRPC[rpc]
			rng.Shuffle(len(list), func(a, b int) { list[a], list[b] = list[b], list[a] })
			if *sample > 0 && len(list) > *sample/4 {
				list = list[:*sample/4]
			}
			idx = append(idx, list...)
		}
		var env *c10env
		sinceNew, kauriEnvs := 0, 0
		for k, i := range idx {
			c := cs[i]
			kauri := c.M["rpc"].(string) == "contribution"
			state := states[k%len(states)]
			if c.M["rpc"].(string) == "propose" && k%2 == 0 {
				state = "advanced" // the only state in which a proposal can get past the first checks of the voter: half of them meet it
			}
			// a fresh replica regularly, after a panic, and when the communication scheme has to change
			if env == nil || sinceNew > 150 || env.state != state || kauri != (env.r.Kauri != nil) || (kauri && sinceNew > 40) {
				if env != nil {
					env.r.Stop()
				}
				phase := "round"
				if kauri {
					phase = []string{"round", "fresh", "round", "waiting"}[kauriEnvs%4]
					kauriEnvs++
				}
				env, err = newC10Env(scheme, cacheOn == 1, state, rng, kauri, aggOn == 1 && !kauri, phase)
				if err != nil {
					return err
				}
				sinceNew = 0
				if kauri && phase == "round" && env.r.Kauri.VerifView() == 0 {
					return fmt.Errorf("c10: the Kauri node is not in an aggregation round (the contribution cases would be vacuous)")
				}
			}
			sinceNew++
			pre := env.proj()
			env.primedPre = nil
			pan := env.apply(c)
			if env.primedPre != nil {
				pre = env.primedPre
			}
			post := pre
			if pan == "" {
				post = env.proj()
			}
			changed := fmt.Sprint(pre) != fmt.Sprint(post)
			if pan == "" {
				// settle: events the message left deferred (votes waiting for a proposal, proposals waiting for a view change) are
				// released by a proposal the replica ignores (it voted in that view already); a crash then belongs to this message
				pan = env.settle()
			}
			line := obj{"id": c.ID, "rpc": c.M["rpc"], "scheme": scheme, "cache": cacheOn == 1, "state": state, "agg": aggOn == 1, "verifies": c.Verifies,
				"panic": pan, "changed": changed, "case": c.M, "pre": pre, "post": post}
			if kauri && pan == "" {
				// (non-vacuity of the Kauri part: the round the node is in and what it has aggregated so far)
				line["kauriView"], line["kauriAgg"], line["kauriPhase"] = int(env.r.Kauri.VerifView()), len(env.r.Kauri.VerifAgg()), env.kauriPhase
			}
			o.emit(line)
			if pan != "" {
				env = nil
			}
		}
	}
	return o.close()
}
