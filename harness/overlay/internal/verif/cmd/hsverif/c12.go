//go:build verif

package main

import (
	"bufio"
	"crypto/sha256"
	"encoding/json"
	"flag"
	"fmt"
	"os"
	"sort"
	"strings"
	"sync"
	"time"

	"github.com/relab/hotstuff"
	"github.com/relab/hotstuff/core"
	"github.com/relab/hotstuff/internal/proto/clientpb"
	"github.com/relab/hotstuff/internal/proto/hotstuffpb"
	"github.com/relab/hotstuff/internal/verif/hx"
	"github.com/relab/hotstuff/network"
	"github.com/relab/hotstuff/security/cert"
	"google.golang.org/protobuf/proto"
)

func init() { subcommands["c12"] = c12 }

func hx8(b []byte) string { h := sha256.Sum256(b); return fmt.Sprintf("%x", h[:8]) }

func viewOf(class string) hotstuff.View {
	switch class {
	case "zero":
		return 0
	case "one":
		return 1
	case "big":
		return 1<<40 + 7
	case "max":
		return ^hotstuff.View(0)
	}
	return 1
}

type c12world struct {
	n, q int
	big  bool // a large configuration: the signer classes take the highest ids, so that id-indexed encodings grow past one machine word
	memo map[string]hotstuff.QuorumSignature
	secs []*hx.Sec
	b1   *hotstuff.Block
	ver  *cert.Authority // verifier: the last replica
}

func (w *c12world) signers(class string) []int {
	if w.big {
		switch class {
		case "one":
			return []int{w.n}
		case "quorum":
			return seqInts(w.n-w.q+1, w.n)
		case "quorumrev":
			ids := seqInts(w.n-w.q+1, w.n)
			for i, j := 0, len(ids)-1; i < j; i, j = i+1, j-1 {
				ids[i], ids[j] = ids[j], ids[i]
			}
			return ids
		}
	}
	switch class {
	case "one":
		return []int{1}
	case "quorum":
		return seqInts(1, w.q)
	case "all":
		return seqInts(1, w.n)
	case "quorumrev": // the same signers, combined in descending order
		ids := seqInts(1, w.q)
		for i, j := 0, len(ids)-1; i < j; i, j = i+1, j-1 {
			ids[i], ids[j] = ids[j], ids[i]
		}
		return ids
	case "allrot": // ... in rotated order
		ids := seqInts(1, w.n)
		return append(ids[2:], ids[:2]...)
	}
	return nil
}

func (w *c12world) sigOver(class string, msg func(id int) []byte) hotstuff.QuorumSignature {
	ids := w.signers(class)
	if len(ids) == 0 {
		return nil
	}
	var sigs []hotstuff.QuorumSignature
	for _, id := range ids {
		m := msg(id)
		k := fmt.Sprint(id, ":", hx8(m))
		s, ok := w.memo[k]
		if !ok {
			var err error
			s, err = w.secs[id-1].Base.Sign(m)
			if err != nil {
				panic(err)
			}
			if w.memo == nil {
				w.memo = map[string]hotstuff.QuorumSignature{}
			}
			w.memo[k] = s
		}
		sigs = append(sigs, s)
	}
	if len(sigs) == 1 {
		return sigs[0]
	}
	s, err := w.secs[0].Base.Combine(sigs...)
	if err != nil {
		panic(err)
	}
	return s
}

func (w *c12world) hashOf(class string) hotstuff.Hash {
	switch class {
	case "genesis":
		return hotstuff.GetGenesis().Hash()
	case "known":
		return w.b1.Hash()
	}
	return hotstuff.Hash{}
}

func sigP(s hotstuff.QuorumSignature) obj {
	if s == nil {
		return obj{"nil": true, "bytes": "", "parts": []int{}}
	}
	return obj{"nil": false, "bytes": hx8(s.ToBytes()), "parts": hx.IDs(s.Participants())}
}

func (w *c12world) qcP(qc hotstuff.QuorumCert) obj {
	ok, pan, _ := verdict(func() error { return w.ver.VerifyQuorumCert(qc) })
	h := qc.BlockHash()
	return obj{"tobytes": hx8(qc.ToBytes()), "view": fmt.Sprint(uint64(qc.View())), "hash": hx8(h[:]), "sig": sigP(qc.Signature()), "ok": ok, "panic": pan}
}

func (w *c12world) tcP(tc hotstuff.TimeoutCert) obj {
	ok, pan, _ := verdict(func() error { return w.ver.VerifyTimeoutCert(tc) })
	tb := ""
	if tc.Signature() != nil {
		tb = hx8(tc.ToBytes())
	}
	return obj{"tobytes": tb, "view": fmt.Sprint(uint64(tc.View())), "sig": sigP(tc.Signature()), "ok": ok, "panic": pan}
}

func (w *c12world) aggP(a hotstuff.AggregateQC) obj {
	var ids []int
	for id := range a.QCs() {
		ids = append(ids, int(id))
	}
	sort.Ints(ids)
	var qcs []obj
	for _, id := range ids {
		p := w.qcP(a.QCs()[hotstuff.ID(id)])
		p["id"] = id
		qcs = append(qcs, p)
	}
	var high hotstuff.QuorumCert
	ok, pan, _ := verdict(func() (err error) { high, err = w.ver.VerifyAggregateQC(a); return })
	hb := ""
	if ok {
		// (two valid QCs of the same view for the same block are equally "highest": report block and view only)
		h := high.BlockHash()
		hb = fmt.Sprintf("%s@%d", hx8(h[:]), uint64(high.View()))
	}
	return obj{"qcs": qcs, "view": fmt.Sprint(uint64(a.View())), "sig": sigP(a.Sig()), "ok": ok, "high": hb, "panic": pan}
}

func (w *c12world) siP(si hotstuff.SyncInfo) obj {
	p := obj{"qc": obj{}, "tc": obj{}, "agg": obj{}, "hasqc": false, "hastc": false, "hasagg": false}
	if qc, ok := si.QC(); ok {
		p["qc"], p["hasqc"] = w.qcP(qc), true
	}
	if tc, ok := si.TC(); ok {
		p["tc"], p["hastc"] = w.tcP(tc), true
	}
	if ag, ok := si.AggQC(); ok {
		p["agg"], p["hasagg"] = w.aggP(ag), true
	}
	return p
}

func blockP(b *hotstuff.Block) obj {
	h, ph := b.Hash(), b.Parent()
	return obj{"hash": hx8(h[:]), "tobytes": hx8(b.ToBytes()), "parent": hx8(ph[:]), "proposer": fmt.Sprint(uint32(b.Proposer())),
		"view": fmt.Sprint(uint64(b.View())), "cmds": hx8(b.Commands().Marshal()), "ncmds": len(b.Commands().GetCommands()),
		"qc": hx8(b.QuorumCert().ToBytes()), "ts": fmt.Sprint(b.Timestamp().UnixNano())}
}

// wire sends a protobuf message through its byte encoding.
func wire[T proto.Message](m T, fresh T) T {
	b, err := proto.Marshal(m)
	if err != nil {
		panic(err)
	}
	if err := proto.Unmarshal(b, fresh); err != nil {
		panic(err)
	}
	return fresh
}

func (w *c12world) mkAgg(entries, sigClass string, view hotstuff.View) hotstuff.AggregateQC {
	// the QCs the signers report: none / all the same / distinct blocks / distinct QCs for the SAME block
	qcG := hotstuff.NewQuorumCert(nil, 0, hotstuff.GetGenesis().Hash())
	qcA := hotstuff.NewQuorumCert(w.sigOver("quorum", func(int) []byte { return w.b1.ToBytes() }), w.b1.View(), w.b1.Hash())
	qcB := hotstuff.NewQuorumCert(w.sigOver("all", func(int) []byte { return w.b1.ToBytes() }), w.b1.View(), w.b1.Hash())
	ids := w.signers(sigClass)
	qcs := map[hotstuff.ID]hotstuff.QuorumCert{}
	for i, id := range ids {
		switch entries {
		case "same":
			qcs[hotstuff.ID(id)] = qcA
		case "distinct":
			if i%2 == 0 {
				qcs[hotstuff.ID(id)] = qcG
			} else {
				qcs[hotstuff.ID(id)] = qcA
			}
		case "sameblock":
			if i%2 == 0 {
				qcs[hotstuff.ID(id)] = qcA
			} else {
				qcs[hotstuff.ID(id)] = qcB
			}
		}
	}
	sig := w.sigOver(sigClass, func(id int) []byte {
		tm := hotstuff.TimeoutMsg{ID: hotstuff.ID(id), View: view}
		if qc, ok := qcs[hotstuff.ID(id)]; ok {
			tm.SyncInfo = hotstuff.NewSyncInfoWith(qc)
		}
		return tm.ToBytes()
	})
	return hotstuff.NewAggregateQC(qcs, sig, view)
}

func c12(args []string) error {
	fs := flag.NewFlagSet("c12", flag.ExitOnError)
	out := fs.String("out", "", "output ndjson")
	cases := fs.String("cases", "", "wire_objects.ndjson written by TLC")
	schemes := fs.String("schemes", "ecdsa,eddsa,bls12,bls12/n67", "schemes")
	_ = fs.Parse(args)
	o, err := newNDJSON(*out)
	if err != nil {
		return err
	}
	type caseT struct {
		ID int            `json:"id"`
		O  map[string]any `json:"o"`
	}
	var cs []caseT
	f, err := os.Open(*cases)
	if err != nil {
		return err
	}
	sc := bufio.NewScanner(f)
	sc.Buffer(make([]byte, 1<<20), 1<<24)
	for sc.Scan() {
		var c caseT
		if err := json.Unmarshal(sc.Bytes(), &c); err != nil {
			return err
		}
		cs = append(cs, c)
	}
	f.Close()
	str := func(m map[string]any, k string) string { s, _ := m[k].(string); return s }
	bl := func(m map[string]any, k string) bool { b, _ := m[k].(bool); return b }
	for _, scheme := range splitComma(*schemes) {
		n := 4
		if i := strings.Index(scheme, "/n"); i > 0 { // "bls12/n67": the same grammar in a configuration of 67 replicas
			if _, err := fmt.Sscan(scheme[i+2:], &n); err != nil {
				return err
			}
		}
		label := scheme
		scheme = strings.Split(scheme, "/")[0]
		secs, err := hx.NewSecCluster(hx.SecOpts{N: n, Scheme: scheme, Opts: []core.RuntimeOption{core.WithAggregateQC()}})
		if err != nil {
			return err
		}
		w := &c12world{n: n, q: hotstuff.QuorumSize(n), secs: secs, ver: secs[n-1].Auth, big: n > 8}
		w.b1 = hotstuff.NewBlock(hotstuff.GetGenesis().Hash(), hotstuff.NewQuorumCert(nil, 0, hotstuff.GetGenesis().Hash()),
			&clientpb.Batch{Commands: []*clientpb.Command{{ClientID: 1, SequenceNumber: 1, Data: []byte("a")}}}, 1, 1)
		for _, s := range secs {
			s.BC.Store(w.b1)
		}
		cmdsOf := func(class string) *clientpb.Batch {
			b := &clientpb.Batch{}
			k := map[string]int{"empty": 0, "one": 1, "many": 5}[class]
			for i := 0; i < k; i++ {
				b.Commands = append(b.Commands, &clientpb.Command{ClientID: uint32(1 + i%2), SequenceNumber: uint64(i + 1), Data: []byte(fmt.Sprint("cmd", i))})
			}
			return b
		}
		for _, c := range cs {
			kind := str(c.O, "kind")
			line := obj{"id": c.ID, "scheme": label, "kind": kind, "case": c.O}
			switch kind {
			case "qc":
				h := w.hashOf(str(c.O, "hash"))
				qc := hotstuff.NewQuorumCert(w.sigOver(str(c.O, "sig"), func(int) []byte { return w.b1.ToBytes() }), viewOf(str(c.O, "view")), h)
				line["before"] = w.qcP(qc)
				line["after"] = w.qcP(hotstuffpb.QuorumCertFromProto(wire(hotstuffpb.QuorumCertToProto(qc), &hotstuffpb.QuorumCert{})))
			case "tc":
				v := viewOf(str(c.O, "view"))
				tc := hotstuff.NewTimeoutCert(w.sigOver(str(c.O, "sig"), func(int) []byte { return v.ToBytes() }), v)
				line["before"] = w.tcP(tc)
				line["after"] = w.tcP(hotstuffpb.TimeoutCertFromProto(wire(hotstuffpb.TimeoutCertToProto(tc), &hotstuffpb.TimeoutCert{})))
			case "vote":
				pc := hotstuff.NewPartialCert(w.sigOver("one", func(int) []byte { return w.b1.ToBytes() }), w.hashOf(str(c.O, "hash")))
				pp := func(p hotstuff.PartialCert) obj {
					ok, pan, _ := verdict(func() error { return w.ver.VerifyPartialCert(p) })
					h := p.BlockHash()
					return obj{"tobytes": hx8(p.ToBytes()), "signer": int(p.Signer()), "hash": hx8(h[:]), "sig": sigP(p.Signature()), "ok": ok, "panic": pan}
				}
				line["before"] = pp(pc)
				line["after"] = pp(hotstuffpb.PartialCertFromProto(wire(hotstuffpb.PartialCertToProto(pc), &hotstuffpb.PartialCert{})))
			case "agg":
				a := w.mkAgg(str(c.O, "entries"), str(c.O, "sig"), viewOf(str(c.O, "view")))
				line["before"] = w.aggP(a)
				line["after"] = w.aggP(hotstuffpb.AggregateQCFromProto(wire(hotstuffpb.AggregateQCToProto(a), &hotstuffpb.AggQC{})))
			case "block":
				qc := hotstuff.NewQuorumCert(w.sigOver(str(c.O, "qcsig"), func(int) []byte { return w.b1.ToBytes() }), w.b1.View(), w.b1.Hash())
				prop := map[string]hotstuff.ID{"zero": 0, "one": 1, "max": ^hotstuff.ID(0)}[str(c.O, "proposer")]
				b := hotstuff.NewBlock(w.b1.Hash(), qc, cmdsOf(str(c.O, "cmds")), viewOf(str(c.O, "view")), prop)
				switch str(c.O, "ts") {
				case "epoch":
					b.SetTimestamp(time.Unix(0, 0))
				case "far":
					b.SetTimestamp(time.Date(2200, 12, 31, 23, 59, 59, 999999999, time.UTC))
				}
				line["before"] = blockP(b)
				line["after"] = blockP(hotstuffpb.BlockFromProto(wire(hotstuffpb.BlockToProto(b), &hotstuffpb.Block{})))
			case "proposal":
				qc := hotstuff.NewQuorumCert(w.sigOver("quorum", func(int) []byte { return w.b1.ToBytes() }), w.b1.View(), w.b1.Hash())
				p := hotstuff.ProposeMsg{ID: 1, Block: hotstuff.NewBlock(w.b1.Hash(), qc, cmdsOf(str(c.O, "cmds")), 2, 1)}
				if e := str(c.O, "agg"); e != "absent" {
					a := w.mkAgg(e, "quorum", 1)
					p.AggregateQC = &a
				}
				pp := func(p hotstuff.ProposeMsg) obj {
					ok, pan, _ := verdict(func() error { return w.ver.VerifyAnyQC(&p) })
					r := obj{"block": blockP(p.Block), "hasagg": p.AggregateQC != nil, "agg": obj{}, "ok": ok, "panic": pan}
					if p.AggregateQC != nil {
						r["agg"] = w.aggP(*p.AggregateQC)
					}
					return r
				}
				line["before"] = pp(p)
				line["after"] = pp(hotstuffpb.ProposalFromProto(wire(hotstuffpb.ProposalToProto(p), &hotstuffpb.Proposal{})))
			case "syncinfo", "timeout":
				si := hotstuff.NewSyncInfo()
				if bl(c.O, "qc") {
					si.SetQC(hotstuff.NewQuorumCert(w.sigOver("quorum", func(int) []byte { return w.b1.ToBytes() }), w.b1.View(), w.b1.Hash()))
				}
				if bl(c.O, "tc") {
					si.SetTC(hotstuff.NewTimeoutCert(w.sigOver("quorum", func(int) []byte { return hotstuff.View(3).ToBytes() }), 3))
				}
				if bl(c.O, "agg") {
					si.SetAggQC(w.mkAgg("distinct", "quorum", 3))
				}
				if kind == "syncinfo" {
					line["before"] = w.siP(si)
					line["after"] = w.siP(hotstuffpb.SyncInfoFromProto(wire(hotstuffpb.SyncInfoToProto(si), &hotstuffpb.SyncInfo{})))
					break
				}
				v := viewOf(str(c.O, "view"))
				tm := hotstuff.TimeoutMsg{ID: 1, View: v, SyncInfo: si}
				tm.ViewSignature, _ = secs[0].Base.Sign(v.ToBytes())
				if bl(c.O, "msgsig") {
					tm.MsgSignature, _ = secs[0].Base.Sign(tm.ToBytes())
				}
				tp := func(t hotstuff.TimeoutMsg) obj {
					okv, _, _ := verdict(func() error { return w.ver.Verify(t.ViewSignature, t.View.ToBytes()) })
					okm := false
					if t.MsgSignature != nil {
						okm, _, _ = verdict(func() error { return w.ver.Verify(t.MsgSignature, t.ToBytes()) })
					}
					return obj{"tosign": hx8(t.ToBytes()), "view": fmt.Sprint(uint64(t.View)), "viewsig": sigP(t.ViewSignature), "viewok": okv,
						"msgsig": sigP(t.MsgSignature), "msgok": okm, "si": w.siP(t.SyncInfo)}
				}
				line["before"] = tp(tm)
				back := hotstuffpb.TimeoutMsgFromProto(wire(hotstuffpb.TimeoutMsgToProto(tm), &hotstuffpb.TimeoutMsg{}))
				back.ID = tm.ID // set by the server from the authenticated peer
				line["after"] = tp(back)
			default:
				return fmt.Errorf("unknown object kind %q", kind)
			}
			o.emit(line)
		}
		// messages from several peers are decoded at the same time (one handler goroutine per connection): every vote, certificate and
		// timeout certificate comes out as it does when decoded alone
		{
			type item struct {
				kind string
				raw  []byte
				dec  func([]byte) obj
			}
			var items []item
			for _, id := range w.signers("all") {
				sg, err := w.secs[id-1].Base.Sign(w.b1.ToBytes())
				if err != nil {
					return err
				}
				pc := hotstuff.NewPartialCert(sg, w.b1.Hash())
				raw, _ := proto.Marshal(hotstuffpb.PartialCertToProto(pc))
				items = append(items, item{"vote", raw, func(b []byte) obj {
					m := &hotstuffpb.PartialCert{}
					if proto.Unmarshal(b, m) != nil {
						return obj{"undecodable": true}
					}
					p := hotstuffpb.PartialCertFromProto(m)
					return obj{"tobytes": hx8(p.ToBytes()), "sig": sigP(p.Signature())}
				}})
				if len(items) >= 8 {
					break
				}
			}
			qc := hotstuff.NewQuorumCert(w.sigOver("quorum", func(int) []byte { return w.b1.ToBytes() }), w.b1.View(), w.b1.Hash())
			rawQC, _ := proto.Marshal(hotstuffpb.QuorumCertToProto(qc))
			items = append(items, item{"qc", rawQC, func(b []byte) obj {
				m := &hotstuffpb.QuorumCert{}
				if proto.Unmarshal(b, m) != nil {
					return obj{"undecodable": true}
				}
				q := hotstuffpb.QuorumCertFromProto(m)
				return obj{"tobytes": hx8(q.ToBytes()), "sig": sigP(q.Signature())}
			}})
			tc := hotstuff.NewTimeoutCert(w.sigOver("all", func(int) []byte { return hotstuff.View(5).ToBytes() }), 5)
			rawTC, _ := proto.Marshal(hotstuffpb.TimeoutCertToProto(tc))
			items = append(items, item{"tc", rawTC, func(b []byte) obj {
				m := &hotstuffpb.TimeoutCert{}
				if proto.Unmarshal(b, m) != nil {
					return obj{"undecodable": true}
				}
				t := hotstuffpb.TimeoutCertFromProto(m)
				return obj{"view": fmt.Sprint(uint64(t.View())), "sig": sigP(t.Signature())}
			}})
			alone := make([]obj, len(items))
			for i, it := range items {
				alone[i] = it.dec(it.raw)
			}
			const rounds = 40
			together := make([][]obj, len(items))
			var wg sync.WaitGroup
			start := make(chan struct{})
			for i, it := range items {
				wg.Add(1)
				go func(i int, it item) {
					defer wg.Done()
					<-start
					for r := 0; r < rounds; r++ {
						together[i] = append(together[i], func() (x obj) {
							defer func() {
								if r := recover(); r != nil { // (e.g. a decoded vote without signature)
									x = obj{"panic": fmt.Sprint(r)}
								}
							}()
							return it.dec(it.raw)
						}())
					}
				}(i, it)
			}
			close(start)
			wg.Wait()
			for i, it := range items {
				// (one line per item: the first concurrent result that differs from the result alone, if any)
				after := alone[i]
				for _, x := range together[i] {
					if fmt.Sprint(x) != fmt.Sprint(alone[i]) {
						after = x
						break
					}
				}
				o.emit(obj{"id": 0, "scheme": label, "kind": "concurrent", "of": it.kind, "before": alone[i], "after": after, "decodes": rounds})
			}
		}
		// a block fetched by hash is the block that hash names: the real quorum function on honest and lying replies
		blocks := []*hotstuff.Block{w.b1, hotstuff.GetGenesis(),
			hotstuff.NewBlock(w.b1.Hash(), hotstuff.NewQuorumCert(nil, 1, w.b1.Hash()), cmdsOf("many"), 2, 2)}
		for i, want := range blocks {
			for lies := 0; lies < 3; lies++ {
				for honest := 0; honest < 2; honest++ {
					replies := map[uint32]*hotstuffpb.Block{}
					for l := 0; l < lies; l++ {
						replies[uint32(l+1)] = hotstuffpb.BlockToProto(blocks[(i+1+l)%len(blocks)])
					}
					if honest == 1 {
						replies[9] = wire(hotstuffpb.BlockToProto(want), &hotstuffpb.Block{})
					}
					wh := want.Hash()
					got := ""
					if pb, ok := network.VerifRequestBlockQF(&hotstuffpb.BlockHash{Hash: wh[:]}, replies); ok {
						gh := hotstuffpb.BlockFromProto(pb).Hash()
						got = hx8(gh[:])
					}
					o.emit(obj{"id": 0, "scheme": label, "kind": "fetch", "requested": hx8(wh[:]), "got": got, "honest": honest == 1, "lies": lies})
				}
			}
		}
	}
	return o.close()
}
