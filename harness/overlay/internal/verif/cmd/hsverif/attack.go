//go:build verif

package main

// attack: plays scripts that TLC generated from spec/HotStuffAbs.tla against real replicas.
//
// A script is a view-ordered behaviour of the abstract model: P(v,k,parent) = a leader proposes block <<v,k>> on top of a
// certified block, V(r,v,k) = honest replica r receives that proposal and votes.  The cluster has n=4 replicas, replica 4
// is Byzantine and leads every view (scripted rotation), so every behaviour of the model is realisable with f faults:
// the harness holds replica 4's key, crafts well-formed proposals carrying genuine certificates (real votes of the honest
// replicas plus replica 4's own), and brings replicas into the needed views with genuine certificates (view timers fire
// where no certificate exists yet).  "attack" scripts violate Agreement in a model with one weakened rule: real replicas that
// enforce the rule refuse a vote and the script stops; "follow" scripts are behaviours of the correct model and real
// replicas must follow every step.  Everything is logged in the trace format of Trace_P, which decides C01/C03/C06/C07.

import (
	"encoding/json"
	"flag"
	"fmt"
	"math/rand"
	"os"
	"sort"
	"strings"

	"github.com/relab/hotstuff"
	"github.com/relab/hotstuff/core"
	"github.com/relab/hotstuff/internal/proto/clientpb"
	"github.com/relab/hotstuff/internal/verif/hx"
	"github.com/relab/hotstuff/protocol/leaderrotation"
	"github.com/relab/hotstuff/protocol/synchronizer"
	"github.com/relab/hotstuff/security/crypto"
)

func init() { subcommands["attack"] = attackCmd }

type abScript struct {
	Kind   string  `json:"kind"`
	Weak   string  `json:"weak"`
	Rs     string  `json:"rs"`
	Job    string  `json:"job"`
	Idx    int     `json:"idx"`
	Prefix int     `json:"prefix"`
	N      int     `json:"n"`
	Ops    [][]any `json:"ops"`
}

type attacker struct {
	r       *run
	byz     hotstuff.ID
	blk     map[[2]int]*hotstuff.Block
	tmo     map[hotstuff.View]map[hotstuff.ID]hotstuff.TimeoutMsg
	tcs     map[hotstuff.View]hotstuff.TimeoutCert
	maxView int
	cmdSeq  int
	note    []string
	// refFirst: a replica hears of a block before it gets the proposal -- the adversary's own (genuine) vote for the block arrives
	// first, is set aside, and is taken up again when some other proposal has been handled; the replica then fetches the block.
	refFirst bool
	lastProp map[hotstuff.ID]*hotstuff.Block // the last proposal shown to each replica
	// Fast-HotStuff (aggregate timeout rule): plain QCs move nobody's view, so views are pumped with timeout certificates only;
	// aggs = the genuine aggregate QCs the adversary has assembled per view (op "A"), aggOf = the one attached to a proposal (op "PA")
	aggMode bool
	aggs    map[hotstuff.View]hotstuff.AggregateQC
	aggOf   map[[2]int]*hotstuff.AggregateQC
}

func num(x any) int { return int(x.(float64)) }

// votesFor: the genuine votes for b that left honest replicas (the Byzantine leader received them) plus its own
func (a *attacker) qcFor(b *hotstuff.Block) (hotstuff.QuorumCert, bool) {
	r := a.r
	if b.Hash() == hotstuff.GetGenesis().Hash() {
		return hotstuff.NewQuorumCert(nil, 0, b.Hash()), true
	}
	var pcs []hotstuff.PartialCert
	seen := map[hotstuff.ID]bool{}
	for _, pc := range r.pcPool {
		if pc.BlockHash() == b.Hash() && !seen[pc.Signer()] {
			pcs = append(pcs, pc)
			seen[pc.Signer()] = true
		}
	}
	if pc, err := r.node(a.byz).Auth.CreatePartialCert(b); err == nil && !seen[a.byz] {
		pcs = append(pcs, pc)
	}
	if len(pcs) < r.q {
		return hotstuff.QuorumCert{}, false
	}
	qc, err := r.node(a.byz).Auth.CreateQuorumCert(b, pcs)
	return qc, err == nil
}

// flush: what honest replicas sent to the Byzantine leader reaches it; messages between honest replicas are lost
func (a *attacker) flush() {
	r := a.r
	for len(r.net) > 0 {
		e := r.net[0]
		if r.byz[e.to] {
			if t, ok := e.msg.(hotstuff.TimeoutMsg); ok && t.ViewSignature != nil {
				if a.tmo[t.View] == nil {
					a.tmo[t.View] = map[hotstuff.ID]hotstuff.TimeoutMsg{}
				}
				a.tmo[t.View][t.ID] = t
			}
			r.deliverIdx(0)
		} else {
			r.net = r.net[1:]
		}
	}
}

func (a *attacker) send(what string, to *hx.Node, msg any) {
	r := a.r
	r.logByz(what, a.byz, []envelope{{from: a.byz, to: to.ID, msg: msg}})
	r.deliverIdx(len(r.net) - 1)
	a.flush()
}

// bestCert: the certificate with the highest view the adversary can show (certified block or timeout certificate)
func (a *attacker) bestCert() (hotstuff.SyncInfo, int) {
	best, bv := hotstuff.NewSyncInfo(), -1
	var keys [][2]int
	for k := range a.blk {
		keys = append(keys, k)
	}
	sort.Slice(keys, func(i, j int) bool {
		return keys[i][0] > keys[j][0] || (keys[i][0] == keys[j][0] && keys[i][1] < keys[j][1])
	})
	for _, k := range keys {
		if k[0] == 0 || a.aggMode {
			continue
		}
		if qc, ok := a.qcFor(a.blk[k]); ok {
			best, bv = hotstuff.NewSyncInfoWith(qc), k[0]
			break
		}
	}
	for v, tc := range a.tcs {
		if int(v) > bv {
			best, bv = hotstuff.NewSyncInfoWith(tc), int(v)
		}
	}
	return best, bv
}

// pump brings honest replica x into a view >= target using genuine certificates only
func (a *attacker) pump(x *hx.Node, target int, depth int) bool {
	r := a.r
	for guard := 0; int(x.VS.View()) < target && guard < 200; guard++ {
		cur := int(x.VS.View())
		si, bv := a.bestCert()
		if bv >= cur {
			a.send("pump", x, hotstuff.NewViewMsg{ID: a.byz, SyncInfo: si, FromNetwork: true})
			if int(x.VS.View()) == cur {
				a.note = append(a.note, fmt.Sprintf("pump: replica %d stays in view %d on a certificate of view %d", x.ID, cur, bv))
				return false
			}
			continue
		}
		if depth > 0 {
			return false
		}
		// no certificate for this view yet: the timers of x and of one more honest replica fire in view cur, the Byzantine
		// replica signs a timeout too
		var other *hx.Node
		for _, y := range r.honest() {
			if y.ID != x.ID && int(y.VS.View()) <= cur && (other == nil || y.VS.View() > other.VS.View()) {
				other = y
			}
		}
		if other == nil {
			a.note = append(a.note, fmt.Sprintf("pump: nobody can time out in view %d with replica %d", cur, x.ID))
			return false
		}
		if !a.pump(other, cur, depth+1) {
			return false
		}
		for _, y := range []*hx.Node{x, other} {
			y := y
			r.step("timeout", y, obj{"type": "localtimeout", "view": int(y.VS.View())}, func() { y.FireTimeout() })
			a.flush()
		}
		view := hotstuff.View(cur)
		var sigs []hotstuff.QuorumSignature
		for _, t := range a.tmo[view] {
			sigs = append(sigs, t.ViewSignature)
		}
		if s, err := r.node(a.byz).Auth.Sign(view.ToBytes()); err == nil {
			sigs = append(sigs, s)
		}
		if len(sigs) < r.q {
			a.note = append(a.note, fmt.Sprintf("pump: only %d timeout signatures for view %d", len(sigs), cur))
			return false
		}
		s, err := r.node(a.byz).Auth.Combine(sigs...)
		if err != nil {
			a.note = append(a.note, "pump: combine: "+err.Error())
			return false
		}
		a.tcs[view] = hotstuff.NewTimeoutCert(s, view)
	}
	return int(x.VS.View()) >= target
}

func (a *attacker) propose(v, k int, parent [2]int) bool {
	r := a.r
	p, ok := a.blk[parent]
	if !ok {
		a.note = append(a.note, fmt.Sprintf("propose: unknown parent %v", parent))
		return false
	}
	qc, ok := a.qcFor(p)
	if !ok {
		a.note = append(a.note, fmt.Sprintf("propose: parent %v is not certified", parent))
		return false
	}
	a.cmdSeq++
	batch := &clientpb.Batch{Commands: []*clientpb.Command{{ClientID: 9, SequenceNumber: uint64(a.cmdSeq), Data: []byte{byte(v), byte(k)}}}}
	b := hotstuff.NewBlock(p.Hash(), qc, batch, hotstuff.View(v), a.byz)
	r.regBlock(b)
	r.node(a.byz).BC.Store(b)
	a.blk[[2]int{v, k}] = b
	if v > a.maxView {
		a.maxView = v
	}
	return true
}

// aggregate: the honest replicas ids are brought into view v and their view timers fire there; from their genuine timeout messages
// and the adversary's own (correctly self-signed, claiming the genesis QC as its highest) the adversary assembles the timeout
// certificate and the aggregate QC of view v exactly as the synchronizer's RemoteTimeoutRule does
func (a *attacker) aggregate(v int, ids []int) bool {
	r := a.r
	view := hotstuff.View(v)
	for _, id := range ids {
		x := r.node(hotstuff.ID(id))
		if !a.pump(x, v, 0) {
			return false
		}
		if int(x.VS.View()) != v {
			a.note = append(a.note, fmt.Sprintf("aggregate: replica %d is in view %d, not %d", id, x.VS.View(), v))
			return false
		}
		if _, done := a.tmo[view][x.ID]; !done {
			r.step("timeout", x, obj{"type": "localtimeout", "view": int(x.VS.View())}, func() { x.FireTimeout() })
			a.flush()
		}
	}
	byz := r.node(a.byz)
	ruler := synchronizer.NewTimeoutRuler(byz.Cfg, byz.Auth)
	own, err := ruler.LocalTimeoutRule(view, hotstuff.NewSyncInfoWith(hotstuff.NewQuorumCert(nil, 0, hotstuff.GetGenesis().Hash())))
	if err != nil {
		a.note = append(a.note, "aggregate: own timeout: "+err.Error())
		return false
	}
	tmos := []hotstuff.TimeoutMsg{*own}
	for _, id := range ids {
		if t, ok := a.tmo[view][hotstuff.ID(id)]; ok {
			tmos = append(tmos, t)
		}
	}
	if len(tmos) < r.q {
		a.note = append(a.note, fmt.Sprintf("aggregate: only %d timeout messages for view %d", len(tmos), v))
		return false
	}
	si, err := ruler.RemoteTimeoutRule(view, view, tmos)
	if err != nil {
		a.note = append(a.note, "aggregate: "+err.Error())
		return false
	}
	tc, _ := si.TC()
	agg, ok := si.AggQC()
	if !ok {
		a.note = append(a.note, "aggregate: no aggregate QC")
		return false
	}
	a.tcs[view] = tc
	a.aggs[view] = agg
	return true
}

// deliver the proposal <<v,k>> to honest replica id; reports whether the replica voted for it
func (a *attacker) vote(id, v, k int) (voted bool, ok bool) {
	r := a.r
	x := r.node(hotstuff.ID(id))
	b := a.blk[[2]int{v, k}]
	if b == nil {
		a.note = append(a.note, fmt.Sprintf("vote: unknown block <<%d,%d>>", v, k))
		return false, false
	}
	if !a.pump(x, v, 0) {
		return false, false
	}
	if prev := a.lastProp[x.ID]; a.refFirst && prev != nil && prev != b && r.rng.Intn(2) == 0 {
		if pc, err := r.node(a.byz).Auth.CreatePartialCert(b); err == nil {
			a.send("vote", x, hotstuff.VoteMsg{ID: a.byz, PartialCert: pc})
			a.send("propose", x, hotstuff.ProposeMsg{ID: a.byz, Block: prev}) // an old proposal once more: refused, and the vote set aside is taken up
		}
	}
	a.lastProp[x.ID] = b
	s0 := len(x.Signed)
	a.send("propose", x, hotstuff.ProposeMsg{ID: a.byz, Block: b, AggregateQC: a.aggOf[[2]int{v, k}]})
	for _, s := range x.Signed[s0:] {
		if string(s.Msg) == string(b.ToBytes()) {
			voted = true
		}
	}
	return voted, true
}

func (a *attacker) certifiedTips() [][2]int {
	var tips [][2]int
	for k, b := range a.blk {
		if k[0] == 0 {
			continue
		}
		if _, ok := a.qcFor(b); !ok {
			continue
		}
		hasChild := false
		for k2, c := range a.blk {
			if k2 != k && c.Parent() == b.Hash() {
				if _, ok := a.qcFor(c); ok {
					hasChild = true
				}
			}
		}
		if !hasChild {
			tips = append(tips, k)
		}
	}
	sort.Slice(tips, func(i, j int) bool {
		return tips[i][0] < tips[j][0] || (tips[i][0] == tips[j][0] && tips[i][1] < tips[j][1])
	})
	return tips
}

func attackCmd(args []string) error {
	fs := flag.NewFlagSet("attack", flag.ExitOnError)
	out := fs.String("out", "", "output ndjson (Trace_P format)")
	scriptsFile := fs.String("scripts", "", "scripts written by TLC (ndjson)")
	statusFile := fs.String("status", "", "per-script status (ndjson)")
	maxScripts := fs.Int("max", 0, "at most this many scripts (0 = all), chosen evenly over the jobs by -seed")
	seed := fs.Int64("seed", 1, "seed")
	kinds := fs.String("kinds", "attack,follow", "script kinds to play")
	_ = fs.Parse(args)
	data, err := os.ReadFile(*scriptsFile)
	if err != nil {
		return err
	}
	var scripts []abScript
	for _, ln := range strings.Split(string(data), "\n") {
		if strings.TrimSpace(ln) == "" {
			continue
		}
		var s abScript
		if err := json.Unmarshal([]byte(ln), &s); err != nil {
			return fmt.Errorf("script: %w", err)
		}
		if strings.Contains(","+*kinds+",", ","+s.Kind+",") {
			scripts = append(scripts, s)
		}
	}
	if *maxScripts > 0 && len(scripts) > *maxScripts {
		// round-robin over the jobs so that every weakened variant is represented
		rng := rand.New(rand.NewSource(*seed))
		byJob := map[string][]abScript{}
		var jobs []string
		for _, s := range scripts {
			if _, ok := byJob[s.Job]; !ok {
				jobs = append(jobs, s.Job)
			}
			byJob[s.Job] = append(byJob[s.Job], s)
		}
		for _, j := range jobs {
			l := byJob[j]
			rng.Shuffle(len(l), func(i, k int) { l[i], l[k] = l[k], l[i] })
		}
		var pick []abScript
		for i := 0; len(pick) < *maxScripts; i++ {
			any := false
			for _, j := range jobs {
				if i < len(byJob[j]) && len(pick) < *maxScripts {
					pick = append(pick, byJob[j][i])
					any = true
				}
			}
			if !any {
				break
			}
		}
		scripts = pick
	}
	o, err := newNDJSON(*out)
	if err != nil {
		return err
	}
	st, err := newNDJSON(*statusFile)
	if err != nil {
		return err
	}
	for si, sc := range scripts {
		res, err := playScript(o, sc, *seed+int64(si), si%2 == 1)
		if err != nil {
			return err
		}
		st.emit(res)
	}
	if err := st.close(); err != nil {
		return err
	}
	return o.close()
}

func playScript(o *ndjson, sc abScript, seed int64, refFirst bool) (obj, error) {
	const n = 4
	rs := map[string]string{"chained": "chainedhotstuff", "simple": "simplehotstuff", "fast": "fasthotstuff"}[sc.Rs]
	if rs == "" {
		return nil, fmt.Errorf("unknown ruleset %q", sc.Rs)
	}
	byzID := hotstuff.ID(4)
	script := make([]int, 400)
	for i := range script {
		script[i] = int(byzID)
	}
	lrOf := func(cfg *core.RuntimeConfig) leaderrotation.LeaderRotation { return scriptLR{n: n, script: &script} }
	nodes, err := hx.NewNodes(hx.NodeOpts{N: n, Scheme: crypto.NameECDSA, Ruleset: rs, Leader: lrOf, BatchSize: 1})
	if err != nil {
		return nil, err
	}
	rng := rand.New(rand.NewSource(seed))
	r := &run{o: o, rng: rng, n: n, q: hotstuff.QuorumSize(n), nodes: nodes, byz: map[hotstuff.ID]bool{byzID: true}, lr: scriptLR{n: n, script: &script},
		script: &script, fixedLeader: int(byzID), lmode: "fixed", blockID: map[hotstuff.Hash]int{hotstuff.GetGenesis().Hash(): 0},
		blocks: map[int]*hotstuff.Block{0: hotstuff.GetGenesis()}, nextCmd: map[int]int{}, fetchOK: 100, coopDone: map[int]bool{}, bytesID: map[int]string{}}
	fetch := func(by hotstuff.ID, h hotstuff.Hash) (*hotstuff.Block, bool) { return r.fetchFrom(by, h, true) }
	for _, x := range nodes {
		x.Fetch = fetch
	}
	leaders := make([]int, 400)
	for i := range leaders {
		leaders[i] = int(byzID)
	}
	o.emit(obj{"op": "init", "n": n, "f": 1, "q": r.q, "rs": rs, "byz": []int{int(byzID)}, "leaders": leaders, "lmode": "fixed", "agg": rs == "fasthotstuff",
		"crashOnly": false, "chain": nodes[0].Rules.ChainLength(), "script": obj{"job": sc.Job, "idx": sc.Idx, "kind": sc.Kind, "weak": sc.Weak}})
	for _, x := range r.honest() {
		x := x
		r.step("start", x, obj{"type": "start"}, func() { x.Start() })
	}
	a := &attacker{r: r, byz: byzID, blk: map[[2]int]*hotstuff.Block{{0, 0}: hotstuff.GetGenesis()}, tmo: map[hotstuff.View]map[hotstuff.ID]hotstuff.TimeoutMsg{},
		tcs: map[hotstuff.View]hotstuff.TimeoutCert{}, refFirst: refFirst, lastProp: map[hotstuff.ID]*hotstuff.Block{},
		aggMode: rs == "fasthotstuff", aggs: map[hotstuff.View]hotstuff.AggregateQC{}, aggOf: map[[2]int]*hotstuff.AggregateQC{}}
	if a.aggMode {
		a.refFirst = false
	}
	a.flush()
	status, at := "completed", -1
	// the fault-free prefix: one chain, everybody votes
	var ops [][]any
	for i := 1; i <= sc.Prefix; i++ {
		pk := 1
		if i == 1 {
			pk = 0
		}
		ops = append(ops, []any{"P", float64(i), float64(1), float64(i - 1), float64(pk)})
		for id := 1; id <= 3; id++ {
			ops = append(ops, []any{"V", float64(id), float64(i), float64(1)})
		}
	}
	nPrefix := len(ops)
	ops = append(ops, sc.Ops...)
	func() {
		defer func() {
			if x := recover(); x != nil {
				status, a.note = "panic", append(a.note, fmt.Sprint(x)+" @ "+panicSite())
			}
		}()
		for i, op := range ops {
			switch op[0].(string) {
			case "P":
				if !a.propose(num(op[1]), num(op[2]), [2]int{num(op[3]), num(op[4])}) {
					status, at = "unrealisable", i-nPrefix
					return
				}
			case "A": // ["A", view, replica, replica, ...]
				var ids []int
				for _, x := range op[2:] {
					ids = append(ids, num(x))
				}
				if !a.aggregate(num(op[1]), ids) {
					status, at = "unrealisable", i-nPrefix
					return
				}
			case "PA": // ["PA", v, k, parent v, parent k, view of the aggregate QC]: a proposal that carries an aggregate QC
				agg, have := a.aggs[hotstuff.View(num(op[5]))]
				if !have || !a.propose(num(op[1]), num(op[2]), [2]int{num(op[3]), num(op[4])}) {
					status, at = "unrealisable", i-nPrefix
					return
				}
				a.aggOf[[2]int{num(op[1]), num(op[2])}] = &agg
			case "PE": // ["PE", v, k, parent v, parent k]: a proposal that carries an empty aggregate QC (no certificates, no signature)
				if !a.propose(num(op[1]), num(op[2]), [2]int{num(op[3]), num(op[4])}) {
					status, at = "unrealisable", i-nPrefix
					return
				}
				a.aggOf[[2]int{num(op[1]), num(op[2])}] = &hotstuff.AggregateQC{}
			case "V":
				voted, ok := a.vote(num(op[1]), num(op[2]), num(op[3]))
				if !ok {
					status, at = "unrealisable", i-nPrefix
					return
				}
				if !voted {
					status, at = "refused", i-nPrefix
					return
				}
			}
		}
	}()
	// reveal: every certified tip gets a child in a fresh view, shown to every honest replica (a replica commits when it
	// accepts a block whose certificate chain completes the commit rule)
	if status == "completed" || status == "refused" {
		func() {
			defer func() {
				if x := recover(); x != nil {
					status, a.note = "panic", append(a.note, fmt.Sprint(x)+" @ "+panicSite())
				}
			}()
			a.refFirst = false
			for _, tip := range a.certifiedTips() {
				v := a.maxView + 1
				if !a.propose(v, 9, tip) {
					continue
				}
				for _, x := range r.honest() {
					a.vote(int(x.ID), v, 9)
				}
			}
		}()
	}
	commits := obj{}
	for _, x := range r.honest() {
		var ids []int
		for _, b := range x.Commits {
			ids = append(ids, r.regBlock(b))
		}
		commits[fmt.Sprint(x.ID)] = ids
	}
	for _, x := range nodes {
		x.Stop()
	}
	o.emit(obj{"op": "end", "steps": r.steps})
	return obj{"job": sc.Job, "idx": sc.Idx, "kind": sc.Kind, "weak": sc.Weak, "rs": sc.Rs, "status": status, "at": at, "ops": len(sc.Ops),
		"commits": commits, "notes": a.note, "refFirst": refFirst}, nil
}
