//go:build verif

package main

import (
	"crypto/sha256"
	"encoding/binary"
	"flag"
	"fmt"
	"math/rand"
	"sort"
	"sync"
	"time"

	"github.com/relab/hotstuff"
	"github.com/relab/hotstuff/core"
	"github.com/relab/hotstuff/internal/verif/hx"
	"github.com/relab/hotstuff/security/cert"
	"github.com/relab/hotstuff/security/crypto"
)

func init() { subcommands["c11"] = c11 }

type denseIDs struct{ m map[string]int }

func (d *denseIDs) id(b []byte) int {
	if d.m == nil {
		d.m = map[string]int{}
	}
	k := string(b)
	if v, ok := d.m[k]; ok {
		return v
	}
	d.m[k] = len(d.m) + 1
	return d.m[k]
}

// gateBase is the signature scheme under the cache, with a gate: while armed, every verification announces itself and then waits
// for release, so that the driver decides which requests overlap.
type gateBase struct {
	crypto.Base
	mu      sync.Mutex
	armed   bool
	entered chan struct{}
	release chan struct{}
}

func (g *gateBase) wait() {
	g.mu.Lock()
	armed, entered, release := g.armed, g.entered, g.release
	g.mu.Unlock()
	if armed {
		entered <- struct{}{}
		<-release
	}
}

func (g *gateBase) Verify(sig hotstuff.QuorumSignature, message []byte) error {
	g.wait()
	return g.Base.Verify(sig, message)
}

func (g *gateBase) BatchVerify(sig hotstuff.QuorumSignature, batch map[hotstuff.ID][]byte) error {
	g.wait()
	return g.Base.BatchVerify(sig, batch)
}

// overlap runs k calls on the cached authority so that each one starts while all earlier ones are still inside the scheme's
// verification (or have returned).  It reports each call's verdict and whether it reached the scheme.
func (g *gateBase) overlap(k int, call func() error) (verdicts []bool, reached []bool) {
	g.mu.Lock()
	g.armed, g.entered, g.release = true, make(chan struct{}, k), make(chan struct{})
	g.mu.Unlock()
	results := make([]chan bool, k)
	reached = make([]bool, k)
	for i := 0; i < k; i++ {
		results[i] = make(chan bool, 1)
		go func(c chan bool) {
			ok, _, _ := verdict(call)
			c <- ok
		}(results[i])
		select {
		case <-g.entered:
			reached[i] = true
		case ok := <-results[i]:
			results[i] <- ok
		case <-time.After(300 * time.Millisecond): // a cache that makes the second caller wait for the first: let them go
		}
	}
	g.mu.Lock()
	g.armed = false
	g.mu.Unlock()
	close(g.release)
	for i := 0; i < k; i++ {
		verdicts = append(verdicts, <-results[i])
	}
	return
}

func c11(args []string) error {
	fs := flag.NewFlagSet("c11", flag.ExitOnError)
	out := fs.String("out", "", "output ndjson")
	seed := fs.Int64("seed", 1, "seed")
	seqs := fs.Int("seqs", 30, "operation sequences per scheme")
	length := fs.Int("len", 60, "operations per sequence")
	maxCap := fs.Int("maxcap", 4, "largest cache capacity")
	_ = fs.Parse(args)
	rng := rand.New(rand.NewSource(*seed))
	o, err := newNDJSON(*out)
	if err != nil {
		return err
	}
	for _, scheme := range []string{crypto.NameECDSA, crypto.NameEDDSA, crypto.NameBLS12} {
		bls := scheme == crypto.NameBLS12
		for sq := 0; sq < *seqs; sq++ {
			n := 2 + rng.Intn(3)
			capacity := 1 + rng.Intn(*maxCap)
			if sq%7 == 0 {
				capacity = 50 // large: nothing is ever evicted
			}
			signers, err := hx.NewSecCluster(hx.SecOpts{N: n + 1, Scheme: scheme})
			if err != nil {
				return err
			}
			keys := make([]hotstuff.PrivateKey, n)
			for i := range keys {
				keys[i] = signers[i].Key
			}
			plain, err := hx.NewSecCluster(hx.SecOpts{N: n, Scheme: scheme, Keys: keys})
			if err != nil {
				return err
			}
			gates := map[hotstuff.ID]*gateBase{}
			cached, err := hx.NewSecCluster(hx.SecOpts{N: n, Scheme: scheme, Keys: keys, Opts: []core.RuntimeOption{core.WithCache(uint(capacity))},
				WrapBase: func(id hotstuff.ID, b crypto.Base) crypto.Base { gates[id] = &gateBase{Base: b}; return gates[id] }})
			if err != nil {
				return err
			}
			me := 1 + rng.Intn(n) // the replica whose two authorities are compared
			au, ac := plain[me-1].Auth, cached[me-1].Auth
			cache := cert.VerifCacheOf(ac)
			if cache == nil {
				return fmt.Errorf("no cache in cached authority")
			}
			w := hx.NewWorld(scheme, signers, n)
			var mids, bids denseIDs
			keyNames := map[string]obj{} // real cache key -> abstract key of the request that inserted it
			o.emit(obj{"op": "new", "cap": capacity, "scheme": scheme, "n": n})
			lru := func(cur obj) []obj {
				out := []obj{}
				for _, k := range cache.VerifKeys() {
					if _, ok := keyNames[k]; !ok {
						keyNames[k] = cur
					}
					out = append(out, keyNames[k])
				}
				return out
			}
			msgs := []hx.Msg{hx.BlockMsg("B1"), hx.BlockMsg("B2"), hx.ViewMsg(3), hx.ViewMsg(4)}
			// pool of abstract signatures built so far (replayed later with altered labels/messages)
			type pooled struct {
				sig hx.AbsSig
				msg hx.Msg
			}
			var pool []pooled
			randSig := func(m hx.Msg) hx.AbsSig {
				k := 1 + rng.Intn(n)
				perm := rng.Perm(n)[:k]
				var ids []int
				for _, p := range perm {
					ids = append(ids, p+1)
				}
				return w.GoodSig(ids, m)
			}
			mutate := func(a hx.AbsSig) hx.AbsSig {
				a = a.Clone()
				if bls {
					switch rng.Intn(4) {
					case 0: // claim one more member
						a.Bits = append(a.Bits, 1+rng.Intn(n))
						a.Bits = uniqInts(a.Bits)
					case 1: // claim a different member
						if len(a.Bits) > 0 {
							a.Bits[rng.Intn(len(a.Bits))] = 1 + rng.Intn(n)
							a.Bits = uniqInts(a.Bits)
						}
					case 2: // drop a claimed id
						if len(a.Bits) > 1 {
							a.Bits = a.Bits[1:]
						}
					}
					return a
				}
				if len(a.E) == 0 {
					return a
				}
				i := rng.Intn(len(a.E))
				switch rng.Intn(4) {
				case 0: // relabel the signer of one entry
					a.E[i][0] = 1 + rng.Intn(n+1)
				case 1: // swap the labels of two entries
					j := rng.Intn(len(a.E))
					a.E[i][0], a.E[j][0] = a.E[j][0], a.E[i][0]
				case 2: // reorder entries
					j := rng.Intn(len(a.E))
					a.E[i], a.E[j] = a.E[j], a.E[i]
				}
				return a
			}
			// in half of the sequences the caller hands every message over in one buffer that it reuses for the next message (what a
			// message arrives in is the caller's business; the verdict must not depend on it)
			reuse := rng.Intn(2) == 0
			var shared []byte
			inBuf := func(mb []byte) []byte {
				if !reuse {
					return mb
				}
				shared = append(shared[:0], mb...)
				return shared
			}
			verify := func(a hx.AbsSig, m hx.Msg) {
				sig := w.Sig(a)
				mb := inBuf(w.Bytes(m))
				key := obj{"m": mids.id(mb), "c": hx.IDs(sig.Participants()), "b": bids.id(sig.ToBytes())}
				okU, _, _ := verdict(func() error { return au.Verify(sig, mb) })
				okC, _, _ := verdict(func() error { return ac.Verify(sig, mb) })
				o.emit(obj{"op": "verify", "n": n, "scheme": scheme, "sig": a, "msg": m, "key": key, "vc": okC, "vu": okU, "lru": lru(key)})
			}
			gate := gates[hotstuff.ID(me)]
			// overlapping requests for one signature and message (votes are verified in their own goroutines): every caller gets the
			// uncached verdict
			overlapVerify := func(a hx.AbsSig, m hx.Msg) {
				sig := w.Sig(a)
				mb := w.Bytes(m)
				key := obj{"m": mids.id(mb), "c": hx.IDs(sig.Participants()), "b": bids.id(sig.ToBytes())}
				vcs, reached := gate.overlap(2+rng.Intn(3), func() error { return ac.Verify(sig, mb) })
				okU, _, _ := verdict(func() error { return au.Verify(sig, mb) })
				o.emit(obj{"op": "overlap", "of": "verify", "n": n, "scheme": scheme, "sig": a, "msg": m, "key": key, "vcs": vcs, "reached": reached, "vu": okU, "lru": lru(key)})
			}
			// the first use of every replica's key and of a fresh signature object is by overlapping callers
			for id := 1; id <= n; id++ {
				m := msgs[rng.Intn(len(msgs))]
				a := w.GoodSig([]int{id}, m)
				pool = append(pool, pooled{a, m})
				overlapVerify(a, m)
			}
			// the same certificate bytes cut at other entry boundaries: a list signature (ECDSA / EdDSA) travels as one byte string per
			// signer, so a sender can move bytes from the end of one entry to the start of the next; no such entry is a signature
			resplit := func(a hx.AbsSig, m hx.Msg) {
				sig := w.Sig(a)
				mb := w.Bytes(m)
				alt := resplitSig(sig, rng)
				if alt == nil {
					return
				}
				okU0, _, _ := verdict(func() error { return au.Verify(sig, mb) })
				okC0, _, _ := verdict(func() error { return ac.Verify(sig, mb) }) // (the genuine one first: it is remembered if valid)
				key := obj{"m": mids.id(mb), "c": hx.IDs(sig.Participants()), "b": bids.id(sig.ToBytes())}
				o.emit(obj{"op": "verify", "n": n, "scheme": scheme, "sig": a, "msg": m, "key": key, "vc": okC0, "vu": okU0, "lru": lru(key)})
				xU, _, _ := verdict(func() error { return au.Verify(alt, mb) })
				xC, _, _ := verdict(func() error { return ac.Verify(alt, mb) })
				o.emit(obj{"op": "xverify", "of": "resplit", "n": n, "scheme": scheme, "vc": xC, "vu": xU})
			}
			for step := 0; step < *length; step++ {
				if !bls && rng.Intn(12) == 0 && len(pool) > 0 {
					p := pool[rng.Intn(len(pool))]
					resplit(p.sig, p.msg)
					continue
				}
				if rng.Intn(8) == 0 && len(pool) > 0 {
					p := pool[rng.Intn(len(pool))]
					switch rng.Intn(3) {
					case 0:
						overlapVerify(p.sig, p.msg)
					case 1:
						overlapVerify(p.sig, msgs[rng.Intn(len(msgs))])
					default:
						overlapVerify(mutate(p.sig), p.msg)
					}
					continue
				}
				switch r := rng.Intn(10); {
				case r < 3 || len(pool) == 0: // a fresh (mostly valid) signature
					m := msgs[rng.Intn(len(msgs))]
					a := randSig(m)
					pool = append(pool, pooled{a, m})
					verify(a, m)
				case r < 5: // replay a remembered signature unchanged
					p := pool[rng.Intn(len(pool))]
					verify(p.sig, p.msg)
				case r < 6: // replay under a different message
					p := pool[rng.Intn(len(pool))]
					verify(p.sig, msgs[rng.Intn(len(msgs))])
				case r < 8: // replay with altered signer labels
					p := pool[rng.Intn(len(pool))]
					verify(mutate(p.sig), p.msg)
				case r < 9: // batch verification: per-signer timeout messages, replayed with altered batch/view
					k := 1 + rng.Intn(n)
					view := 3 + rng.Intn(2)
					var ids []int
					for _, p := range rng.Perm(n)[:k] {
						ids = append(ids, p+1)
					}
					a := w.GoodSig(ids, hx.ViewMsg(0))
					for i := range a.E {
						a.E[i][2] = hx.TMsg(ids[i], view, "")
					}
					for variant := 0; variant < 3; variant++ {
						bview := view
						bids2 := append([]int{}, ids...)
						switch variant {
						case 1:
							bview = view + 1 // same signature, batch for another view
						case 2:
							if rng.Intn(2) == 0 && len(bids2) > 1 {
								bids2 = bids2[1:]
							} else {
								bids2 = append(bids2, 1+rng.Intn(n))
								bids2 = uniqInts(bids2)
							}
						}
						batch := map[hotstuff.ID][]byte{}
						var babs [][2]any
						h := sha256.New()
						sort.Ints(bids2)
						for _, id := range bids2 {
							m := hx.TMsg(id, bview, "")
							batch[hotstuff.ID(id)] = w.Bytes(m)
							babs = append(babs, [2]any{id, m})
							h.Write([]byte{byte(id)})
							h.Write(w.Bytes(m))
						}
						sig := w.Sig(a)
						key := obj{"m": mids.id(h.Sum(nil)), "c": hx.IDs(sig.Participants()), "b": bids.id(sig.ToBytes())}
						okU, _, _ := verdict(func() error { return au.BatchVerify(sig, batch) })
						if rng.Intn(3) == 0 { // the batch offered by overlapping callers
							vcs, reached := gate.overlap(2, func() error { return ac.BatchVerify(sig, batch) })
							o.emit(obj{"op": "overlap", "of": "batch", "n": n, "scheme": scheme, "sig": a, "batch": babs, "key": key, "vcs": vcs, "reached": reached, "vu": okU, "lru": lru(key)})
							continue
						}
						okC, _, _ := verdict(func() error { return ac.BatchVerify(sig, batch) })
						o.emit(obj{"op": "batch", "n": n, "scheme": scheme, "sig": a, "batch": babs, "key": key, "vc": okC, "vu": okU, "lru": lru(key)})
						if rng.Intn(3) == 0 {
							// the same signature offered for ONE message: the byte string a batch is digested from (signer, length, message,
							// in signer order).  Single and batch verification must not share remembered verdicts.
							var raw []byte
							for _, id := range bids2 {
								mb := batch[hotstuff.ID(id)]
								raw = append(raw, hotstuff.ID(id).ToBytes()...)
								var ln [8]byte
								binary.LittleEndian.PutUint64(ln[:], uint64(len(mb)))
								raw = append(raw, ln[:]...)
								raw = append(raw, mb...)
							}
							xU, _, _ := verdict(func() error { return au.Verify(sig, raw) })
							xC, _, _ := verdict(func() error { return ac.Verify(sig, raw) })
							o.emit(obj{"op": "xverify", "n": n, "scheme": scheme, "vc": xC, "vu": xU})
						}
					}
				default: // sign with the cached authority, then verify it on both; and combine
					m := msgs[rng.Intn(len(msgs))]
					mb := inBuf(w.Bytes(m))
					sig, err := ac.Sign(mb)
					if err != nil {
						return err
					}
					key := obj{"m": mids.id(mb), "c": hx.IDs(sig.Participants()), "b": bids.id(sig.ToBytes())}
					o.emit(obj{"op": "sign", "by": me, "msg": m, "key": key, "lru": lru(key)})
					okU, _, _ := verdict(func() error { return au.Verify(sig, mb) })
					okC, _, _ := verdict(func() error { return ac.Verify(sig, mb) })
					a := w.GoodSig([]int{me}, m)
					o.emit(obj{"op": "verify", "n": n, "scheme": scheme, "sig": a, "msg": m, "key": key, "vc": okC, "vu": okU, "lru": lru(key)})
					// combine with another replica's signature (possibly overlapping)
					other := 1 + rng.Intn(n)
					s2, err := signers[other-1].Base.Sign(mb)
					if err != nil {
						return err
					}
					cu, eu := au.Combine(sig, s2)
					cc, ec := ac.Combine(sig, s2)
					same := (eu == nil) == (ec == nil)
					if eu == nil && ec == nil {
						same = fmt.Sprint(hx.IDs(cu.Participants())) == fmt.Sprint(hx.IDs(cc.Participants()))
					}
					o.emit(obj{"op": "combine", "okc": ec == nil, "oku": eu == nil, "same": same})
					// ... and with a signature the other replica made over ANOTHER message: whatever comes out of the combination is not a
					// valid signature of this message, on either authority (combining is not verifying)
					if om := msgs[rng.Intn(len(msgs))]; other != me && fmt.Sprint(om) != fmt.Sprint(m) {
						if s3, err := signers[other-1].Base.Sign(w.Bytes(om)); err == nil {
							cu2, eu2 := au.Combine(sig, s3)
							cc2, ec2 := ac.Combine(sig, s3)
							if eu2 == nil && ec2 == nil {
								xU, _, _ := verdict(func() error { return au.Verify(cu2, mb) })
								xC, _, _ := verdict(func() error { return ac.Verify(cc2, mb) })
								o.emit(obj{"op": "xverify", "of": "combined", "n": n, "scheme": scheme, "vc": xC, "vu": xU})
							}
						}
					}
				}
			}
		}
	}
	return o.close()
}

func uniqInts(a []int) []int {
	seen := map[int]bool{}
	var out []int
	for _, x := range a {
		if !seen[x] {
			seen[x] = true
			out = append(out, x)
		}
	}
	return out
}

// resplitSig: the same signers and the same concatenated bytes, with one entry boundary moved.
func resplitSig(sig hotstuff.QuorumSignature, rng *rand.Rand) hotstuff.QuorumSignature {
	switch m := sig.(type) {
	case crypto.Multi[*crypto.ECDSASignature]:
		if len(m) < 2 {
			return nil
		}
		i := rng.Intn(len(m) - 1)
		a, b := m[i].ToBytes(), m[i+1].ToBytes()
		k := 1 + rng.Intn(len(a)-1)
		out := append(crypto.Multi[*crypto.ECDSASignature]{}, m...)
		out[i] = crypto.RestoreECDSASignature(append([]byte{}, a[:len(a)-k]...), m[i].Signer())
		out[i+1] = crypto.RestoreECDSASignature(append(append([]byte{}, a[len(a)-k:]...), b...), m[i+1].Signer())
		return out
	case crypto.Multi[*crypto.EDDSASignature]:
		if len(m) < 2 {
			return nil
		}
		i := rng.Intn(len(m) - 1)
		a, b := m[i].ToBytes(), m[i+1].ToBytes()
		k := 1 + rng.Intn(len(a)-1)
		out := append(crypto.Multi[*crypto.EDDSASignature]{}, m...)
		out[i] = crypto.RestoreEDDSASignature(append([]byte{}, a[:len(a)-k]...), m[i].Signer())
		out[i+1] = crypto.RestoreEDDSASignature(append(append([]byte{}, a[len(a)-k:]...), b...), m[i+1].Signer())
		return out
	}
	return nil
}
