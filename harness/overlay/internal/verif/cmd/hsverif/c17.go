//go:build verif

package main

import (
	"time"

	"flag"
	"github.com/relab/hotstuff/internal/latency"
	"math/rand"

	"github.com/relab/hotstuff"
	"github.com/relab/hotstuff/internal/tree"
)

func init() { subcommands["c17"] = c17 }

func idsToInts(ids []hotstuff.ID) []int {
	out := make([]int, len(ids))
	for i, x := range ids {
		out[i] = int(x)
	}
	return out
}

func c17Line(o *ndjson, bf int, pos []int) {
	ids := make([]hotstuff.ID, len(pos))
	for i, p := range pos {
		ids[i] = hotstuff.ID(p)
	}
	views := make([]obj, 0, len(pos))
	th := 0
	for _, id := range ids {
		// every replica builds its own Tree from the shared configuration
		// (built as the orchestration does it: plain, with a tree-height wait time, or with an aggregation wait time computed
		// from a latency matrix -- the relations of the tree must not depend on that)
		var t *tree.Tree
		switch c17Mode % 3 {
		case 0:
			t = tree.NewSimple(id, bf, append([]hotstuff.ID{}, ids...))
		case 1:
			t = tree.NewDelayed(id, tree.DelayTypeTreeHeight, bf, latency.Matrix{}, append([]hotstuff.ID{}, ids...), time.Millisecond)
		default:
			locs := make([]string, len(ids))
			for i := range locs {
				locs[i] = c17Locations[i%len(c17Locations)]
			}
			t = tree.NewDelayed(id, tree.DelayTypeAggregation, bf, latency.MatrixFrom(locs), append([]hotstuff.ID{}, ids...), time.Millisecond)
		}
		parent, has := t.Parent()
		views = append(views, obj{
			"id": int(id), "hasParent": has, "parent": int(parent),
			"children": idsToInts(t.ReplicaChildren()), "subtree": idsToInts(t.SubTree()),
			"peers": idsToInts(t.PeersOf()), "height": t.ReplicaHeight(),
			"root": int(t.Root()), "isRoot": t.IsRoot(id),
		})
		th = t.TreeHeight()
	}
	o.emit(obj{"n": len(pos), "bf": bf, "pos": pos, "views": views, "treeHeight": th, "built": c17Mode % 3})
	c17Mode++
}

var c17Mode = 0
var c17Locations = []string{"Adelaide", "Albany", "Alblasserdam", "Albuquerque", "Algiers", "Amsterdam", "Ankara", "Antwerp", "Oslo", "Tokyo", "Lima"}

func permutations(n int, f func([]int)) {
	p := make([]int, n)
	for i := range p {
		p[i] = i + 1
	}
	var rec func(k int)
	rec = func(k int) {
		if k == n {
			f(append([]int{}, p...))
			return
		}
		for i := k; i < n; i++ {
			p[k], p[i] = p[i], p[k]
			rec(k + 1)
			p[k], p[i] = p[i], p[k]
		}
	}
	rec(0)
}

func c17(args []string) error {
	fs := flag.NewFlagSet("c17", flag.ExitOnError)
	out := fs.String("out", "", "output ndjson")
	seed := fs.Int64("seed", 1, "seed")
	maxN := fs.Int("maxn", 40, "largest n")
	permN := fs.Int("permn", 5, "all permutations up to this n")
	nrand := fs.Int("rand", 2, "random permutations per (n, bf) above permn")
	_ = fs.Parse(args)
	rng := rand.New(rand.NewSource(*seed))
	o, err := newNDJSON(*out)
	if err != nil {
		return err
	}
	for n := 1; n <= *maxN; n++ {
		for bf := 2; bf <= 6; bf++ {
			if n <= *permN {
				permutations(n, func(p []int) { c17Line(o, bf, p) })
				continue
			}
			id := make([]int, n)
			for i := range id {
				id[i] = i + 1
			}
			c17Line(o, bf, id)
			for k := 0; k < *nrand; k++ {
				p := append([]int{}, id...)
				rng.Shuffle(n, func(i, j int) { p[i], p[j] = p[j], p[i] })
				c17Line(o, bf, p)
			}
		}
	}
	return o.close()
}
