//go:build verif

package main

import (
	"bufio"
	"bytes"
	"encoding/json"
	"fmt"
	"os"
)

// ndjson writes one JSON object per line.
type ndjson struct {
	f *os.File
	w *bufio.Writer
	n int
}

func newNDJSON(path string) (*ndjson, error) {
	f, err := os.Create(path)
	if err != nil {
		return nil, err
	}
	return &ndjson{f: f, w: bufio.NewWriterSize(f, 1<<20)}, nil
}

func (o *ndjson) emit(v any) {
	b, err := json.Marshal(v)
	if err != nil {
		panic(fmt.Sprintf("ndjson: %v", err))
	}
	// TLC's Json module has no null: a nil slice always denotes the empty list in these traces
	b = bytes.ReplaceAll(b, []byte(":null"), []byte(":[]"))
	o.w.Write(b)
	o.w.WriteByte('\n')
	o.w.Flush() // every line reaches the file at once: if the code under test takes the process down, the trace up to there remains
	o.n++
}

func (o *ndjson) close() error {
	if err := o.w.Flush(); err != nil {
		return err
	}
	return o.f.Close()
}

type obj = map[string]any

func splitComma(s string) []string {
	var out []string
	cur := ""
	for _, c := range s {
		if c == ',' {
			if cur != "" {
				out = append(out, cur)
			}
			cur = ""
		} else {
			cur += string(c)
		}
	}
	if cur != "" {
		out = append(out, cur)
	}
	return out
}

func parseInts(s string) []int {
	var out []int
	for _, p := range splitComma(s) {
		n := 0
		fmt.Sscanf(p, "%d", &n)
		out = append(out, n)
	}
	return out
}
