//go:build verif

package main

import (
	"context"
	"flag"
	"fmt"
	"math/rand"
	"runtime"
	"sort"
	"sync"
	"sync/atomic"
	"time"

	"github.com/relab/hotstuff/core/eventloop"
	"github.com/relab/hotstuff/internal/verif/hx"
)

func init() { subcommands["c14"] = c14; subcommands["c14conc"] = c14conc }

type evA struct{ id int }
type evB struct{ id int }
type evC struct{ id int }

func mkEvent(t, id int) any {
	switch t {
	case 1:
		return evA{id}
	case 2:
		return evB{id}
	}
	return evC{id}
}

func evID(e any) int {
	switch v := e.(type) {
	case evA:
		return v.id
	case evB:
		return v.id
	case evC:
		return v.id
	}
	return -1
}

// dropLogger records the events reported as dropped through the loop's logger.
type dropLogger struct {
	hx.Quiet
	dropped []int
}

func (d *dropLogger) Warnf(t string, a ...any) {
	if len(a) == 1 {
		if id := evID(a[0]); id >= 0 {
			d.dropped = append(d.dropped, id)
		}
	}
}

func c14(args []string) error {
	fs := flag.NewFlagSet("c14", flag.ExitOnError)
	out := fs.String("out", "", "output ndjson")
	seed := fs.Int64("seed", 1, "seed")
	qdepth := fs.Int("qdepth", 8, "exhaustive push/pop depth for the queue")
	qrand := fs.Int("qrand", 200, "random queue sequences")
	lseqs := fs.Int("lseqs", 300, "event-loop sequences")
	llen := fs.Int("llen", 40, "operations per event-loop sequence")
	_ = fs.Parse(args)
	rng := rand.New(rand.NewSource(*seed))
	o, err := newNDJSON(*out)
	if err != nil {
		return err
	}
	// ---- (1) the ring buffer: every push/pop sequence up to qdepth on capacities 1..4
	runQ := func(capacity int, ops []bool) {
		q := eventloop.VerifNewQueue(uint(capacity))
		o.emit(obj{"op": "qnew", "cap": capacity})
		next := 1
		for _, push := range ops {
			if push {
				d := q.Push(next)
				dv := 0
				if d != nil {
					dv = d.(int)
				}
				o.emit(obj{"op": "qpush", "v": next, "dropped": dv, "len": q.Len()})
				next++
			} else {
				e, ok := q.Pop()
				ev := 0
				if e != nil {
					ev = e.(int)
				}
				o.emit(obj{"op": "qpop", "v": ev, "ok": ok, "len": q.Len()})
			}
		}
	}
	for capacity := 1; capacity <= 4; capacity++ {
		d := *qdepth
		for mask := 0; mask < 1<<d; mask++ {
			ops := make([]bool, d)
			for i := range ops {
				ops[i] = mask&(1<<i) != 0
			}
			runQ(capacity, ops)
		}
	}
	for i := 0; i < *qrand; i++ {
		capacity := 1 + rng.Intn(6)
		ops := make([]bool, 10+rng.Intn(30))
		bias := 3 + rng.Intn(5)
		for j := range ops {
			ops[j] = rng.Intn(10) < bias
		}
		runQ(capacity, ops)
	}
	// ---- (2) the event loop
	for s := 0; s < *lseqs; s++ {
		capacity := []int{1, 2, 3, 8, 100}[rng.Intn(5)]
		dl := &dropLogger{}
		el := eventloop.New(dl, uint(capacity))
		o.emit(obj{"op": "new", "cap": capacity})
		var inv [][3]int
		unreg := map[int]func(){}
		nextH, nextE := 1, 1
		var liveH []int
		delay := func(until int, e any) {
			switch until {
			case 1:
				eventloop.DelayUntil[evA](el, e)
			case 2:
				eventloop.DelayUntil[evB](el, e)
			default:
				eventloop.DelayUntil[evC](el, e)
			}
		}
		register := func(t int, prio, inadd bool) {
			h := nextH
			nextH++
			// some run-in-AddEvent handlers defer a new event each time they are invoked
			nestUntil, nestType := 0, 0
			if inadd && rng.Intn(2) == 0 {
				nestUntil, nestType = 1+rng.Intn(3), 1+rng.Intn(3)
			}
			nestBudget := 12 // (two such handlers feeding each other would otherwise double the deferred events at every dispatch)
			record := func(id int) {
				newID := 0
				if nestUntil != 0 && nestBudget > 0 {
					nestBudget--
					newID = nextE
					nextE++
					delay(nestUntil, mkEvent(nestType, newID))
				}
				inv = append(inv, [3]int{h, id, newID})
			}
			var opts []eventloop.HandlerOption
			if prio {
				opts = append(opts, eventloop.Prioritize())
			}
			if inadd {
				opts = append(opts, eventloop.UnsafeRunInAddEvent())
			}
			switch t {
			case 1:
				unreg[h] = eventloop.Register(el, func(e evA) { record(e.id) }, opts...)
			case 2:
				unreg[h] = eventloop.Register(el, func(e evB) { record(e.id) }, opts...)
			default:
				unreg[h] = eventloop.Register(el, func(e evC) { record(e.id) }, opts...)
			}
			liveH = append(liveH, h)
			o.emit(obj{"op": "register", "h": h, "type": t, "prio": prio, "inadd": inadd, "nestUntil": nestUntil, "nestType": nestType})
		}
		if s%4 == 3 {
			// many handlers for one event type, mostly prioritised, in both dispatch phases (handler counts around small powers and
			// buffer sizes are where list handling goes wrong)
			t := 1 + rng.Intn(3)
			for i, k := 0, 4+rng.Intn(14); i < k; i++ {
				register(t, rng.Intn(4) > 0, rng.Intn(3) == 0)
			}
		}
		for i := 0; i < 2+rng.Intn(4); i++ {
			register(1+rng.Intn(3), rng.Intn(3) == 0, rng.Intn(3) == 0)
		}
		for step := 0; step < *llen; step++ {
			inv = nil
			dl.dropped = nil
			switch r := rng.Intn(20); {
			case r < 2:
				register(1+rng.Intn(3), rng.Intn(3) == 0, rng.Intn(3) == 0)
			case r < 4:
				if len(liveH) > 0 {
					i := rng.Intn(len(liveH))
					h := liveH[i]
					unreg[h]()
					liveH = append(liveH[:i], liveH[i+1:]...)
					o.emit(obj{"op": "unregister", "h": h})
				}
			case r < 10:
				t := 1 + rng.Intn(3)
				id := nextE
				nextE++
				el.AddEvent(mkEvent(t, id))
				d := 0
				if len(dl.dropped) > 0 {
					d = dl.dropped[0]
				}
				o.emit(obj{"op": "add", "ev": []int{t, id}, "inv": inv, "dropped": d, "len": el.VerifQueueLen()})
			case r < 13:
				t := 1 + rng.Intn(3)
				until := 1 + rng.Intn(3)
				id := nextE
				nextE++
				delay(until, mkEvent(t, id))
				o.emit(obj{"op": "delay", "until": until, "ev": []int{t, id}})
			default:
				ran := el.Tick(context.Background())
				o.emit(obj{"op": "tick", "ran": ran, "inv": inv, "droppedN": len(dl.dropped), "len": el.VerifQueueLen()})
			}
		}
		// drain
		for i := 0; i < capacity+5; i++ {
			inv = nil
			ran := el.Tick(context.Background())
			o.emit(obj{"op": "tick", "ran": ran, "inv": inv, "droppedN": 0, "len": el.VerifQueueLen()})
			if !ran {
				break
			}
		}
	}
	return o.close()
}

// c14conc: K producers add M events each from their own goroutine while the consumer runs the
// loop; the queue never fills. Every AddEvent is stamped (atomic counter) at call and return.
func c14conc(args []string) error {
	fs := flag.NewFlagSet("c14conc", flag.ExitOnError)
	out := fs.String("out", "", "output ndjson")
	seed := fs.Int64("seed", 1, "seed")
	runs := fs.Int("runs", 20, "runs")
	_ = fs.Parse(args)
	rng := rand.New(rand.NewSource(*seed))
	o, err := newNDJSON(*out)
	if err != nil {
		return err
	}
	for r := 0; r < *runs; r++ {
		k := 2 + rng.Intn(4)
		m := 3 + rng.Intn(10)
		el := eventloop.New(hx.Quiet{}, uint(k*m+8))
		var clock atomic.Int64
		var mu sync.Mutex
		var handled [][2]int // [producer, index] in handling order
		var handled2 [][2]int
		// per event: when its prioritised handlers (one of them runs inside AddEvent, in the producer's goroutine, and is sometimes slow)
		// finished and when its ordinary handler started
		inAddEnd, prioEnd, ordStart := map[int]int{}, map[int]int{}, map[int]int{}
		eventloop.Register(el, func(e evA) {
			st := int(clock.Add(1))
			mu.Lock()
			ordStart[e.id] = st
			handled = append(handled, [2]int{e.id / 1000, e.id % 1000})
			mu.Unlock()
		})
		eventloop.Register(el, func(e evA) {
			mu.Lock()
			handled2 = append(handled2, [2]int{e.id / 1000, e.id % 1000})
			mu.Unlock()
			en := int(clock.Add(1))
			mu.Lock()
			prioEnd[e.id] = en
			mu.Unlock()
		}, eventloop.Prioritize())
		eventloop.Register(el, func(e evA) {
			if e.id%3 == 0 {
				runtime.Gosched()
				time.Sleep(30 * time.Microsecond)
			}
			en := int(clock.Add(1))
			mu.Lock()
			inAddEnd[e.id] = en
			mu.Unlock()
		}, eventloop.Prioritize(), eventloop.UnsafeRunInAddEvent())
		ctx, cancel := context.WithCancel(context.Background())
		done := make(chan struct{})
		go func() { el.Run(ctx); close(done) }()
		type stamp struct{ P, I, Start, End int }
		stamps := make([][]stamp, k)
		var wg sync.WaitGroup
		start := make(chan struct{})
		for p := 0; p < k; p++ {
			wg.Add(1)
			go func(p int) {
				defer wg.Done()
				<-start
				for i := 1; i <= m; i++ {
					if (i+p)%2 == 0 {
						runtime.Gosched()
					}
					s := clock.Add(1)
					el.AddEvent(evA{id: (p+1)*1000 + i})
					e := clock.Add(1)
					stamps[p] = append(stamps[p], stamp{p + 1, i, int(s), int(e)})
				}
			}(p)
		}
		close(start)
		wg.Wait()
		cancel() // Run drains the queue after cancellation
		<-done
		var adds []obj
		for p := range stamps {
			for _, s := range stamps[p] {
				adds = append(adds, obj{"p": s.P, "i": s.I, "start": s.Start, "end": s.End})
			}
		}
		var phases [][3]int
		for id, st := range ordStart {
			phases = append(phases, [3]int{inAddEnd[id], prioEnd[id], st})
		}
		sort.Slice(phases, func(i, j int) bool { return phases[i][2] < phases[j][2] })
		o.emit(obj{"op": "conc", "k": k, "m": m, "adds": adds, "handled": handled, "handledPrio": handled2, "phases": phases})
		_ = fmt.Sprint
	}
	return o.close()
}
