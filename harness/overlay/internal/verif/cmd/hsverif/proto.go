//go:build verif

package main

import (
	"flag"
	"fmt"
	"math/rand"
	"runtime"
	"sort"
	"strings"
	"time"

	"github.com/relab/hotstuff"
	"github.com/relab/hotstuff/core"
	"github.com/relab/hotstuff/internal/proto/clientpb"
	"github.com/relab/hotstuff/internal/verif/hx"
	"github.com/relab/hotstuff/protocol/leaderrotation"
	"github.com/relab/hotstuff/security/crypto"
)

func init() { subcommands["proto"] = protoCmd }

// ---- scripted leader rotation ------------------------------------------------------------------
type scriptLR struct {
	n      int
	script *[]int // leader of view i+1 (0 = round-robin); shared by all replicas; the heal step rewrites the future part
}

func (s scriptLR) GetLeader(v hotstuff.View) hotstuff.ID {
	if i := int(v) - 1; i >= 0 && i < len(*s.script) && (*s.script)[i] != 0 {
		return hotstuff.ID((*s.script)[i])
	}
	return leaderrotation.ChooseRoundRobin(v, s.n)
}

// ---- one protocol run ----------------------------------------------------------------------------
type envelope struct {
	from, to hotstuff.ID
	msg      any
	seq      int
}

type run struct {
	o     *ndjson
	rng   *rand.Rand
	n, q  int
	nodes []*hx.Node
	byz   map[hotstuff.ID]bool
	lr    leaderrotation.LeaderRotation
	agg   bool

	blockID map[hotstuff.Hash]int
	blocks  map[int]*hotstuff.Block
	newBlk  []any // block records first seen since the last log line

	net         []envelope
	seq         int
	qcPool      []hotstuff.QuorumCert
	tcPool      []hotstuff.TimeoutCert
	aggPool     []hotstuff.AggregateQC
	pcPool      []hotstuff.PartialCert // votes seen by the adversary
	nextCmd     map[int]int
	steps       int
	fetchOK     int // percent of fetches answered
	healed      bool
	live        []hotstuff.ID // members of the synchronous quorum after heal
	script      *[]int
	cmdLog      [][2]int    // client commands issued so far
	isoVictim   hotstuff.ID // replica whose traffic (both directions) is currently held back; 0 = nobody
	isoUntil    int
	coop        bool // the Byzantine replicas mostly play along (their blocks get committed)
	coopDone    map[int]bool
	bytesID     map[int]string // block id -> bytes that a vote signs
	fixedLeader int
	lmode       string
	fetchLog    [][2]any               // block fetches of the current step: [block id, answered]
	fetchMemo   map[hotstuff.Hash]bool // one answer per block and step
	forkCount   int
	sinceTop    int
	thin        bool        // client-pause scenario: clients keep only a few commands outstanding ...
	paused      bool        // ... and stop sending altogether for a while
	silentAfter hotstuff.ID // scenario: this replica falls silent once the others reach silentView
	fetchDeaf   hotstuff.ID // scenario: this replica's block requests fail for the time being
	silentView  int
}

func (r *run) honest() []*hx.Node {
	var out []*hx.Node
	for _, n := range r.nodes {
		if !r.byz[n.ID] {
			out = append(out, n)
		}
	}
	return out
}

func (r *run) regBlock(b *hotstuff.Block) int {
	if b == nil {
		return -1
	}
	if id, ok := r.blockID[b.Hash()]; ok {
		return id
	}
	// register ancestors that are known first so that ids respect creation order where possible
	id := len(r.blockID)
	r.blockID[b.Hash()] = id
	r.blocks[id] = b
	cmds := [][2]int{}
	for _, c := range b.Commands().GetCommands() {
		cmds = append(cmds, [2]int{int(c.GetClientID()), int(c.GetSequenceNumber())})
	}
	pid, ok := r.blockID[b.Parent()]
	if !ok {
		pid = -1
	}
	qid, ok := r.blockID[b.QuorumCert().BlockHash()]
	if !ok {
		qid = -1
	}
	r.newBlk = append(r.newBlk, obj{"id": id, "view": int(b.View()), "parent": pid, "qc": qid, "qcv": int(b.QuorumCert().View()),
		"by": int(b.Proposer()), "cmds": cmds, "qcsig": sigAbs(r, b.QuorumCert().Signature())})
	return id
}

// sigAbs lists the claimed participants of a signature (the harness relays every signature, so the
// ground truth of who signed is kept separately in the signing log).
func sigAbs(_ *run, s hotstuff.QuorumSignature) []int {
	if s == nil {
		return []int{}
	}
	return hx.IDs(s.Participants())
}

func (r *run) idOfHash(h hotstuff.Hash) int {
	if id, ok := r.blockID[h]; ok {
		return id
	}
	return -1
}

func (r *run) absSync(si hotstuff.SyncInfo) obj {
	a := obj{"qc": -2, "qcv": 0, "tc": -1, "agg": -1, "aggqcs": [][2]int{}}
	if qc, ok := si.QC(); ok {
		a["qc"], a["qcv"] = r.idOfHash(qc.BlockHash()), int(qc.View())
		a["qcsig"] = sigAbs(r, qc.Signature())
	}
	if tc, ok := si.TC(); ok {
		a["tc"] = int(tc.View())
		a["tcsig"] = sigAbs(r, tc.Signature())
	}
	if ag, ok := si.AggQC(); ok {
		a["agg"] = int(ag.View())
		a["aggqcs"] = r.absAgg(ag)
	}
	return a
}

// absAgg: the blocks certified by the QCs an aggregate QC carries, as (signer, block id) pairs sorted by signer
func (r *run) absAgg(ag hotstuff.AggregateQC) [][2]int {
	out := [][2]int{}
	for id, qc := range ag.QCs() {
		out = append(out, [2]int{int(id), r.idOfHash(qc.BlockHash())})
	}
	sort.Slice(out, func(i, j int) bool { return out[i][0] < out[j][0] })
	return out
}

func (r *run) absMsg(m any) obj {
	switch v := m.(type) {
	case hotstuff.ProposeMsg:
		a := obj{"type": "propose", "from": int(v.ID), "block": r.regBlock(v.Block), "view": int(v.Block.View()), "agg": v.AggregateQC != nil, "aggv": -1, "aggqcs": [][2]int{}}
		if v.AggregateQC != nil {
			a["aggv"], a["aggqcs"] = int(v.AggregateQC.View()), r.absAgg(*v.AggregateQC)
		}
		return a
	case hotstuff.VoteMsg:
		return obj{"type": "vote", "from": int(v.ID), "block": r.idOfHash(v.PartialCert.BlockHash()), "signers": sigAbs(r, v.PartialCert.Signature())}
	case hotstuff.TimeoutMsg:
		return obj{"type": "timeout", "from": int(v.ID), "view": int(v.View), "si": r.absSync(v.SyncInfo)}
	case hotstuff.NewViewMsg:
		return obj{"type": "newview", "from": int(v.ID), "si": r.absSync(v.SyncInfo)}
	case hotstuff.TimeoutEvent:
		return obj{"type": "localtimeout", "view": int(v.View)}
	}
	return obj{"type": fmt.Sprintf("%T", m)}
}

func (r *run) harvest(m any) {
	addSI := func(si hotstuff.SyncInfo) {
		if qc, ok := si.QC(); ok {
			r.qcPool = append(r.qcPool, qc)
		}
		if tc, ok := si.TC(); ok {
			r.tcPool = append(r.tcPool, tc)
		}
		if ag, ok := si.AggQC(); ok {
			r.aggPool = append(r.aggPool, ag)
		}
	}
	switch v := m.(type) {
	case hotstuff.ProposeMsg:
		r.regBlock(v.Block)
		r.qcPool = append(r.qcPool, v.Block.QuorumCert())
		for _, b := range r.nodes {
			if r.byz[b.ID] {
				b.BC.Store(v.Block)
			}
		}
	case hotstuff.TimeoutMsg:
		addSI(v.SyncInfo)
	case hotstuff.NewViewMsg:
		addSI(v.SyncInfo)
	}
}

// post collects what left node n and puts it on the network.
func (r *run) post(n *hx.Node) []obj {
	var outAbs []obj
	for _, om := range n.TakeOut() {
		r.harvest(om.Msg)
		a := r.absMsg(om.Msg)
		a["to"] = int(om.To)
		outAbs = append(outAbs, a)
		for _, d := range r.nodes {
			if d.ID == n.ID || (om.To != 0 && om.To != d.ID) {
				continue
			}
			r.seq++
			r.net = append(r.net, envelope{from: n.ID, to: d.ID, msg: om.Msg, seq: r.seq})
		}
	}
	return outAbs
}

func (r *run) classifySigned(n *hx.Node, from int) []any {
	out := []any{}
	for _, s := range n.Signed[from:] {
		switch {
		case len(s.Msg) == 8:
			out = append(out, []any{"tview", int(hotstuff.View(leU64(s.Msg)))})
		default:
			// a block's bytes?
			found := false
			for id, b := range r.blocks {
				if _, ok := r.bytesID[id]; !ok {
					r.bytesID[id] = string(b.ToBytes())
				}
			}
			for id, bs := range r.bytesID {
				if bs == string(s.Msg) {
					out = append(out, []any{"vote", id})
					found = true
					break
				}
			}
			if !found {
				if len(s.Msg) >= 12 {
					out = append(out, []any{"tmsg", int(leU64(s.Msg[4:12]))})
				} else {
					out = append(out, []any{"other", 0})
				}
			}
		}
	}
	return out
}

func leU64(b []byte) uint64 {
	var v uint64
	for i := 7; i >= 0; i-- {
		v = v<<8 | uint64(b[i])
	}
	return v
}

func (r *run) proj(n *hx.Node) obj {
	hqc := n.VS.HighQC()
	lock := -1
	if b := hx.LockOf(n.Rules); b != nil {
		lock = r.idOfHash(b.Hash())
	}
	return obj{"view": int(n.VS.View()), "hqc": r.idOfHash(hqc.BlockHash()), "hqcv": int(hqc.View()), "htc": int(n.VS.HighTC().View()),
		"lv": int(n.Voter.VerifLastVotedView()), "lock": lock, "committed": r.idOfHash(n.VS.CommittedBlock().Hash()),
		"cview": int(n.VS.CommittedBlock().View()), "tv": n.TimerView}
}

// fetchFrom answers a block fetch of replica by from the other replicas' stores (one answer per block and step) and logs it.
func (r *run) fetchFrom(by hotstuff.ID, h hotstuff.Hash, willing bool) (*hotstuff.Block, bool) {
	if r.fetchMemo == nil {
		r.fetchMemo = map[hotstuff.Hash]bool{}
	}
	if ans, seen := r.fetchMemo[h]; seen {
		willing = ans
	}
	var found *hotstuff.Block
	if willing {
		for _, x := range r.nodes {
			if x.ID != by {
				if b, ok := x.BC.LocalGet(h); ok {
					found = b
					break
				}
			}
		}
	}
	if _, seen := r.fetchMemo[h]; !seen {
		r.fetchMemo[h] = found != nil
		r.fetchLog = append(r.fetchLog, [2]any{r.idOfHash(h), found != nil})
	}
	return found, found != nil
}

// step runs f on node n and logs one line.
func (r *run) step(kind string, n *hx.Node, ev obj, f func()) {
	pre := r.proj(n)
	c0, v0, s0, e0, a0 := len(n.Commits), len(n.ViewChanges), len(n.Signed), len(n.Executed), len(n.Aborted)
	o0 := len(n.Outcomes)
	r.fetchLog, r.fetchMemo = [][2]any{}, nil
	n.StarvedViews = nil
	n.DurLog = nil
	panicked := ""
	func() {
		defer func() {
			if x := recover(); x != nil {
				panicked = fmt.Sprint(x) + " @ " + panicSite()
			}
		}()
		f()
	}()
	out := r.post(n)
	n.CollectOutcomes()
	var commits []int
	for _, b := range n.Commits[c0:] {
		commits = append(commits, r.regBlock(b))
	}
	var vcs [][2]any
	for _, vc := range n.ViewChanges[v0:] {
		vcs = append(vcs, [2]any{int(vc.View), vc.Timeout})
	}
	line := obj{"op": "step", "kind": kind, "node": int(n.ID), "ev": ev, "pre": pre, "post": r.proj(n), "commits": commits, "vcs": vcs,
		"signed": r.classifySigned(n, s0), "out": out, "exec": n.Executed[e0:], "abort": n.Aborted[a0:], "panic": panicked, "healed": r.healed,
		"fetch": r.fetchLog, "starved": append([]int{}, n.StarvedViews...), "outcomes": n.Outcomes[o0:], "count": int(n.CIO.CmdCount()), "digest": fmt.Sprintf("%x", n.CIO.Hash().Sum(nil)[:6])}
	line["new"] = r.newBlk
	line["dlog"] = append([]string{}, n.DurLog...)
	r.newBlk = nil
	r.o.emit(line)
	r.steps++
}

// logByz logs an adversary action (the messages go to the network; no honest state changes).
func (r *run) logByz(what string, by hotstuff.ID, msgs []envelope) {
	var abs []obj
	for _, e := range msgs {
		a := r.absMsg(e.msg)
		a["to"] = int(e.to)
		abs = append(abs, a)
		r.seq++
		e.seq = r.seq
		r.net = append(r.net, e)
	}
	r.o.emit(obj{"op": "byz", "what": what, "by": int(by), "out": abs, "new": r.newBlk})
	r.newBlk = nil
}

// outstanding: client commands that are still ahead of what the replicas executed (per client: issued sequence numbers above
// the highest one any honest replica executed; a skipped lower number will never run and does not count)
func (r *run) outstanding() int {
	high := map[int]int{}
	for _, n := range r.honest() {
		for _, e := range n.Executed {
			high[int(e[0])] = max(high[int(e[0])], int(e[1]))
		}
	}
	k := 0
	for cl, issued := range r.nextCmd {
		if cl != 9 {
			k += issued - high[cl]
		}
	}
	return k
}

func (r *run) topUp() {
	// (thin clients keep a window of outstanding commands; a client whose commands sit in abandoned blocks gives up on them after a
	// while and sends new ones)
	r.sinceTop++
	if r.paused || (r.thin && r.outstanding() >= 16 && r.sinceTop < 12) {
		return
	}
	r.sinceTop = 0
	// a new command of one of two clients goes to EVERY replica (overlapping command sets at different
	// leaders); a leader is never starved
	// (several per step: a replica may propose more than once while it runs to quiescence, and a proposer
	// that finds its cache empty would block the single-threaded driver)
	for k := 0; k < 4; k++ {
		cl := 1 + r.rng.Intn(2)
		r.nextCmd[cl]++
		seq := r.nextCmd[cl]
		// the client's request reaches most replicas (where a client then waits for the outcome); a replica that
		// misses it learns the command only from a committed block
		for _, m := range r.honest() {
			if k == 0 || r.rng.Intn(5) > 0 { // (the first one reaches everybody: a leader is never starved)
				cmd := &clientpb.Command{ClientID: uint32(cl), SequenceNumber: uint64(seq), Data: []byte{byte(cl), byte(seq), byte(seq >> 8)}}
				if r.rng.Intn(2) == 0 {
					m.SubmitReal(cmd) // through the real request handler
				} else {
					m.Submit(cmd)
				}
			}
		}
		r.cmdLog = append(r.cmdLog, [2]int{cl, seq})
	}
	// a request that arrives late (or a client that tries another replica): an earlier command reaches a replica it had not
	// reached yet, through the real handler -- preferably a command that replica has skipped (it executed a later command of the
	// same client but not this one)
	if len(r.cmdLog) > 4 && r.rng.Intn(4) == 0 {
		hon := r.honest()
		m := hon[r.rng.Intn(len(hon))]
		c := r.cmdLog[r.rng.Intn(len(r.cmdLog))]
		done := map[[2]int]bool{}
		high := map[int]int{}
		for _, e := range m.Executed {
			done[[2]int{int(e[0]), int(e[1])}] = true
			high[int(e[0])] = max(high[int(e[0])], int(e[1]))
		}
		var skipped [][2]int
		for _, x := range r.cmdLog {
			if x[1] < high[x[0]] && !done[x] && !m.Submitted[clientpb.MessageID{ClientID: uint32(x[0]), SequenceNumber: uint64(x[1])}] {
				skipped = append(skipped, x)
			}
		}
		if len(skipped) > 0 && r.rng.Intn(3) > 0 {
			c = skipped[r.rng.Intn(len(skipped))]
		}
		cmd := &clientpb.Command{ClientID: uint32(c[0]), SequenceNumber: uint64(c[1]), Data: []byte{byte(c[0]), byte(c[1]), byte(c[1] >> 8)}}
		if !m.Submitted[cmd.ID()] {
			m.SubmitReal(cmd)
		}
	}
}

// ---- adversary ------------------------------------------------------------------------------------
func (r *run) byzIDs() []hotstuff.ID {
	var out []hotstuff.ID
	for id := range r.byz {
		out = append(out, id)
	}
	sort.Slice(out, func(i, j int) bool { return out[i] < out[j] })
	return out
}

func (r *run) node(id hotstuff.ID) *hx.Node { return r.nodes[id-1] }

// maxConnectedView: the highest view among the honest replicas that are not cut off right now
func (r *run) maxConnectedView() int {
	m := 0
	for _, n := range r.honest() {
		if n.ID != r.isoVictim {
			m = max(m, int(n.VS.View()))
		}
	}
	return m
}

// maxViewWithout: the highest view among the honest replicas other than id
func (r *run) maxViewWithout(id hotstuff.ID) int {
	m := 0
	for _, n := range r.honest() {
		if n.ID != id {
			m = max(m, int(n.VS.View()))
		}
	}
	return m
}

func (r *run) maxHonestView() int {
	m := 0
	for _, n := range r.honest() {
		m = max(m, int(n.VS.View()))
	}
	return m
}

func (r *run) someBlock() *hotstuff.Block {
	ids := make([]int, 0, len(r.blocks))
	for id := range r.blocks {
		ids = append(ids, id)
	}
	sort.Ints(ids)
	// prefer recent blocks
	k := len(ids) - 1 - r.rng.Intn(min(len(ids), 4))
	return r.blocks[ids[k]]
}

// forgeShape: the k-th way (cyclically) of writing a certificate for b that no quorum stands behind, from material a Byzantine
// replica really has: signature from {none, its own signature once / repeated up to the quorum size, the signature of a genuine
// certificate of another block, genuine votes it has seen plus its own (below the quorum)}, view label from {the block's view, 0,
// the block's view + 1}.
func (r *run) forgeShape(b *hotstuff.Block, k int) hotstuff.QuorumCert {
	by := r.byzIDs()
	views := []hotstuff.View{b.View(), 0, b.View() + 1}
	view := views[k%len(views)]
	var sig hotstuff.QuorumSignature
	switch (k / len(views)) % 5 {
	case 0: // none
	case 1, 2: // own signature, once or repeated
		var sigs []*crypto.ECDSASignature
		want := 1
		if (k/len(views))%5 == 2 {
			want = r.q
		}
		for len(sigs) < want {
			s, err := r.node(by[len(sigs)%len(by)]).Auth.Sign(b.ToBytes())
			if err != nil {
				break
			}
			m, ok := s.(crypto.Multi[*crypto.ECDSASignature])
			if !ok {
				break
			}
			sigs = append(sigs, m[0])
		}
		if len(sigs) > 0 {
			sig = crypto.NewMulti(sigs...)
		}
	case 3: // genuine signatures, for another block
		for i := len(r.qcPool) - 1; i >= 0; i-- {
			if r.qcPool[i].Signature() != nil && r.qcPool[i].BlockHash() != b.Hash() {
				sig = r.qcPool[i].Signature()
				break
			}
		}
	case 4: // below the quorum: its own vote(s) only
		var sigs []hotstuff.QuorumSignature
		for _, id := range by {
			if pc, err := r.node(id).Auth.CreatePartialCert(b); err == nil {
				sigs = append(sigs, pc.Signature())
			}
		}
		if len(sigs) >= 2 {
			if s, err := r.node(by[0]).Auth.Combine(sigs...); err == nil {
				sig = s
			}
		} else if len(sigs) == 1 {
			sig = sigs[0]
		}
	}
	return hotstuff.NewQuorumCert(sig, view, b.Hash())
}

func (r *run) forgeQC(b *hotstuff.Block) hotstuff.QuorumCert {
	// certificates assembled only from what the adversary can really produce: its own keys (possibly
	// repeated), votes it has seen, a relabelled genuine certificate
	by := r.byzIDs()
	if r.rng.Intn(3) == 0 {
		// field combinations honest code never produces: signature from {none, a genuine certificate of this or another
		// block}, view label from {0, the block's view, another view}, hash from {the block, genesis}
		var sig hotstuff.QuorumSignature
		if len(r.qcPool) > 0 && r.rng.Intn(3) > 0 {
			cands := r.qcPool
			if r.rng.Intn(2) == 0 { // prefer a certificate of this very block
				for _, qc := range r.qcPool {
					if qc.BlockHash() == b.Hash() && qc.Signature() != nil {
						cands = []hotstuff.QuorumCert{qc}
						break
					}
				}
			}
			sig = cands[r.rng.Intn(len(cands))].Signature()
		}
		view := []hotstuff.View{0, b.View(), b.View() + hotstuff.View(1+r.rng.Intn(3)), hotstuff.View(r.rng.Intn(int(b.View()) + 1))}[r.rng.Intn(4)]
		hash := b.Hash()
		if r.rng.Intn(6) == 0 {
			hash = hotstuff.GetGenesis().Hash()
		}
		return hotstuff.NewQuorumCert(sig, view, hash)
	}
	switch r.rng.Intn(4) {
	case 0: // own signatures only, repeated to look like a quorum
		var sigs []*crypto.ECDSASignature
		for len(sigs) < r.q {
			bn := r.node(by[r.rng.Intn(len(by))])
			s, err := bn.Auth.Sign(b.ToBytes())
			if err != nil {
				break
			}
			if m, ok := s.(crypto.Multi[*crypto.ECDSASignature]); ok {
				sigs = append(sigs, m[0])
			} else {
				break
			}
		}
		return hotstuff.NewQuorumCert(crypto.NewMulti(sigs...), b.View(), b.Hash())
	case 1: // a genuine certificate relabelled with a higher or a lower view (mostly a recent one)
		if len(r.qcPool) > 0 {
			qc := r.qcPool[r.rng.Intn(len(r.qcPool))]
			if r.rng.Intn(2) == 0 {
				qc = r.qcPool[len(r.qcPool)-1-r.rng.Intn(min(len(r.qcPool), 3))]
			}
			if r.rng.Intn(2) == 0 && qc.View() > 0 {
				return hotstuff.NewQuorumCert(qc.Signature(), hotstuff.View(r.rng.Intn(int(qc.View()))), qc.BlockHash())
			}
			return hotstuff.NewQuorumCert(qc.Signature(), qc.View()+hotstuff.View(1+r.rng.Intn(5)), qc.BlockHash())
		}
	case 2: // a genuine certificate attached to another block
		if len(r.qcPool) > 0 {
			qc := r.qcPool[r.rng.Intn(len(r.qcPool))]
			return hotstuff.NewQuorumCert(qc.Signature(), b.View(), b.Hash())
		}
	}
	// sub-quorum: the votes the adversary has seen for b plus its own
	var sigs []hotstuff.QuorumSignature
	seen := map[hotstuff.ID]bool{}
	for _, pc := range r.pcPool {
		if pc.BlockHash() == b.Hash() && !seen[pc.Signer()] {
			sigs = append(sigs, pc.Signature())
			seen[pc.Signer()] = true
		}
	}
	for _, id := range by {
		if pc, err := r.node(id).Auth.CreatePartialCert(b); err == nil && !seen[id] {
			sigs = append(sigs, pc.Signature())
			seen[id] = true
		}
	}
	if len(sigs) >= 2 {
		if s, err := r.node(by[0]).Auth.Combine(sigs...); err == nil {
			return hotstuff.NewQuorumCert(s, b.View(), b.Hash()) // genuine if it happens to reach the quorum
		}
	}
	return hotstuff.NewQuorumCert(nil, b.View(), b.Hash())
}

// forgeTC: a timeout certificate no quorum stands behind
func (r *run) forgeTC(view hotstuff.View) hotstuff.TimeoutCert {
	by := r.byzIDs()
	switch r.rng.Intn(3) {
	case 0:
		if len(r.tcPool) > 0 { // genuine signatures, other view (mostly the newest certificate: the one replicas saw last)
			tc := r.tcPool[r.rng.Intn(len(r.tcPool))]
			if r.rng.Intn(3) > 0 {
				tc = r.tcPool[len(r.tcPool)-1]
			}
			if tc.View() != view && tc.Signature() != nil {
				return hotstuff.NewTimeoutCert(tc.Signature(), view)
			}
		}
	case 1:
		return hotstuff.NewTimeoutCert(nil, view)
	}
	// the Byzantine replicas' own signatures only
	var sigs []hotstuff.QuorumSignature
	for _, id := range by {
		if s, err := r.node(id).Auth.Sign(view.ToBytes()); err == nil {
			sigs = append(sigs, s)
		}
	}
	if len(sigs) >= 2 {
		if s, err := r.node(by[0]).Auth.Combine(sigs...); err == nil {
			return hotstuff.NewTimeoutCert(s, view)
		}
	}
	if len(sigs) == 1 {
		return hotstuff.NewTimeoutCert(sigs[0], view)
	}
	return hotstuff.NewTimeoutCert(nil, view)
}

// coopMaybe: a Byzantine leader that plays along: one well-formed proposal for the current view to everybody,
// extending the newest genuine certificate -- but its batch repeats client commands that earlier blocks already
// carry. Such blocks get certified and committed like honest ones.
func (r *run) coopMaybe() bool {
	by := r.byzIDs()
	if len(by) == 0 {
		return false
	}
	hon := r.honest()
	mv := r.maxHonestView()
	if r.coop && r.byz[r.lr.GetLeader(hotstuff.View(mv))] && !r.coopDone[mv] && len(r.qcPool) > 0 {
		lid := r.lr.GetLeader(hotstuff.View(mv))
		best := r.qcPool[0]
		for _, qc := range r.qcPool {
			if qc.View() > best.View() && qc.View() < hotstuff.View(mv) && qc.Signature() != nil {
				best = qc
			}
		}
		if _, known := r.blockID[best.BlockHash()]; known && best.View() < hotstuff.View(mv) {
			r.coopDone[mv] = true
			r.nextCmd[9]++
			batch := &clientpb.Batch{Commands: []*clientpb.Command{{ClientID: 9, SequenceNumber: uint64(r.nextCmd[9]), Data: []byte{7}}}}
			for k := 0; k < 2 && len(r.cmdLog) > 0; k++ {
				c := r.cmdLog[r.rng.Intn(len(r.cmdLog))]
				batch.Commands = append(batch.Commands, &clientpb.Command{ClientID: uint32(c[0]), SequenceNumber: uint64(c[1]), Data: []byte{byte(c[0]), byte(c[1]), byte(c[1] >> 8)}})
			}
			b := hotstuff.NewBlock(best.BlockHash(), best, batch, hotstuff.View(mv), lid)
			r.regBlock(b)
			for _, x := range by {
				r.node(x).BC.Store(b)
			}
			var msgs []envelope
			// (sometimes one replica is left out: it stays in this view without having voted while the others certify the block)
			skip := hotstuff.ID(0)
			if r.rng.Intn(3) == 0 {
				skip = hon[r.rng.Intn(len(hon))].ID
			}
			for _, n := range hon {
				if n.ID != skip {
					msgs = append(msgs, envelope{from: lid, to: n.ID, msg: hotstuff.ProposeMsg{ID: lid, Block: b}})
				}
			}
			// and it votes for its own block at the next leader
			if pc, err := r.node(lid).Auth.CreatePartialCert(b); err == nil {
				next := r.lr.GetLeader(hotstuff.View(mv + 1))
				if !r.byz[next] {
					msgs = append(msgs, envelope{from: lid, to: next, msg: hotstuff.VoteMsg{ID: lid, PartialCert: pc}})
				}
			}
			r.logByz("coop-propose", lid, msgs)
			return true
		}
	}
	return false
}

// forkOpportunity: some honest replica is in a view >= 4 led by a Byzantine replica and has not voted in it
func (r *run) forkOpportunity() bool {
	for _, x := range r.honest() {
		if xv := x.VS.View(); xv >= 4 && r.byz[r.lr.GetLeader(xv)] && x.Voter.VerifLastVotedView() < xv {
			return true
		}
	}
	return false
}

func (r *run) adversary() {
	by := r.byzIDs()
	if len(by) == 0 {
		return
	}
	id := by[r.rng.Intn(len(by))]
	bn := r.node(id)
	hon := r.honest()
	subset := func() []*hx.Node {
		var s []*hx.Node
		for _, n := range hon {
			if r.rng.Intn(3) > 0 {
				s = append(s, n)
			}
		}
		if len(s) == 0 {
			s = append(s, hon[r.rng.Intn(len(hon))])
		}
		return s
	}
	mv := r.maxHonestView()
	if !r.forkOpportunity() && r.coopMaybe() {
		return
	}
	a := r.rng.Intn(11)
	// a replica that can vote right now in a view led by a Byzantine replica is an opportunity for the fork move (below)
	for _, x := range hon {
		if xv := x.VS.View(); xv >= 4 && r.byz[r.lr.GetLeader(xv)] && x.Voter.VerifLastVotedView() < xv && r.rng.Intn(2) == 0 {
			a = 0
			break
		}
	}
	switch {
	case a == 10: // prime, then replay altered: a genuine certificate is shown to a replica, directly followed by a copy with one field changed
		x := hon[r.rng.Intn(len(hon))]
		gen, alt := hotstuff.NewSyncInfo(), hotstuff.NewSyncInfo()
		switch {
		case len(r.tcPool) > 0 && r.rng.Intn(2) == 0:
			tc := r.tcPool[len(r.tcPool)-1-r.rng.Intn(min(len(r.tcPool), 2))]
			if tc.Signature() == nil {
				return
			}
			gen.SetTC(tc)
			alt.SetTC(hotstuff.NewTimeoutCert(tc.Signature(), max(tc.View(), x.VS.View())+hotstuff.View(1+r.rng.Intn(6))))
		case len(r.qcPool) > 0:
			qc := r.qcPool[len(r.qcPool)-1-r.rng.Intn(min(len(r.qcPool), 2))]
			if qc.Signature() == nil {
				return
			}
			gen.SetQC(qc)
			if ob := r.someBlock(); r.rng.Intn(2) == 0 && ob.Hash() != qc.BlockHash() {
				alt.SetQC(hotstuff.NewQuorumCert(qc.Signature(), ob.View(), ob.Hash())) // same signatures, another block
			} else if r.rng.Intn(2) == 0 && qc.View() > 0 {
				alt.SetQC(hotstuff.NewQuorumCert(qc.Signature(), hotstuff.View(r.rng.Intn(int(qc.View()))), qc.BlockHash())) // lower label
			} else {
				alt.SetQC(hotstuff.NewQuorumCert(qc.Signature(), max(qc.View(), x.VS.View())+hotstuff.View(1+r.rng.Intn(6)), qc.BlockHash()))
			}
		default:
			return
		}
		for k, si := range []hotstuff.SyncInfo{gen, alt} {
			r.logByz([]string{"prime", "replay-altered"}[k], id, []envelope{{from: id, to: x.ID, msg: hotstuff.NewViewMsg{ID: id, SyncInfo: si, FromNetwork: true}}})
			r.deliverIdx(len(r.net) - 1)
		}
	case a < 4: // proposals
		view := hotstuff.View(max(1, mv+r.rng.Intn(3)-1))
		// prefer views the adversary leads
		for tries := 0; tries < 6 && r.lr.GetLeader(view) != id; tries++ {
			view = hotstuff.View(max(1, mv+r.rng.Intn(5)-1))
		}
		var qc hotstuff.QuorumCert
		// the fork move needs a replica that can vote now: in a view led by a Byzantine replica and not yet voted in it
		var forkTargets []*hx.Node
		for _, x := range hon {
			if xv := x.VS.View(); xv >= 4 && r.byz[r.lr.GetLeader(xv)] && x.Voter.VerifLastVotedView() < xv {
				forkTargets = append(forkTargets, x)
			}
		}
		switch {
		case len(forkTargets) > 0 && r.rng.Intn(3) > 0:
			// a fork behind one proposal: three well-formed blocks F <- G <- H in consecutive views on an OLD genuine certificate,
			// which nobody ever saw (replicas obtain them through block fetch; only the proposal's own certificate is verified),
			// each carrying a "certificate" for its parent that no quorum stands behind, all forged the same way; the proposal I
			// extends H. A replica that accepts the forgery commits F, which conflicts with what is committed.
			// Every forgery shape is tried, one proposal after the other (a refused proposal does not use up the replica's vote).
			// (the proposal is for the view a target replica is in; F hangs on a certificate at least four views older, genesis included)
			tgt := forkTargets[r.rng.Intn(len(forkTargets))]
			view = tgt.VS.View()
			id = r.lr.GetLeader(view)
			old := hotstuff.NewQuorumCert(nil, 0, hotstuff.GetGenesis().Hash())
			var olds []hotstuff.QuorumCert
			for _, q := range r.qcPool {
				if q.Signature() != nil && q.View()+4 <= view {
					olds = append(olds, q)
				}
			}
			if len(olds) > 0 && r.rng.Intn(3) > 0 {
				old = olds[r.rng.Intn(len(olds))]
			}
			mkb := func(parent hotstuff.Hash, q hotstuff.QuorumCert, v hotstuff.View) *hotstuff.Block {
				r.nextCmd[9]++
				b := hotstuff.NewBlock(parent, q, &clientpb.Batch{Commands: []*clientpb.Command{{ClientID: 9, SequenceNumber: uint64(r.nextCmd[9]), Data: []byte{9}}}}, v, id)
				r.regBlock(b)
				for _, x := range by {
					r.node(x).BC.Store(b)
				}
				return b
			}
			// first: a child of a CERTIFIED block justified by that block's genuine signatures under a LOWER view label (if the target
			// lags, the block's real view may even be at or above the proposal's)
			tried := 0
			for k := len(r.qcPool) - 1; k >= 0 && tried < 3; k-- {
				q := r.qcPool[k]
				if q.Signature() == nil || q.View() == 0 {
					continue
				}
				if _, known := r.blockID[q.BlockHash()]; !known {
					continue
				}
				tried++
				for _, label := range []hotstuff.View{min(view, q.View()) - 1, 0} {
					i := mkb(q.BlockHash(), hotstuff.NewQuorumCert(q.Signature(), label, q.BlockHash()), view)
					r.logByz("stale-child", id, []envelope{{from: id, to: tgt.ID, msg: hotstuff.ProposeMsg{ID: id, Block: i}}})
					r.deliverIdx(len(r.net) - 1)
				}
				if tgt.VS.View() != view || tgt.Voter.VerifLastVotedView() >= view {
					return
				}
			}
			for shape := 0; shape < 15; shape++ {
				f := mkb(old.BlockHash(), old, view-3)
				g := mkb(f.Hash(), r.forgeShape(f, shape), view-2)
				h := mkb(g.Hash(), r.forgeShape(g, shape), view-1)
				i := mkb(h.Hash(), r.forgeShape(h, shape), view)
				r.logByz("fork", id, []envelope{{from: id, to: tgt.ID, msg: hotstuff.ProposeMsg{ID: id, Block: i}}})
				r.deliverIdx(len(r.net) - 1)
				if tgt.VS.View() != view || tgt.Voter.VerifLastVotedView() >= view {
					break // the replica moved on (it accepted one of them)
				}
			}
			return
		case len(r.qcPool) > 0 && r.rng.Intn(5) > 0:
			qc = r.qcPool[len(r.qcPool)-1-r.rng.Intn(min(len(r.qcPool), 4))] // a recent genuine certificate
		default:
			qc = r.forgeQC(r.someBlock())
		}
		mk := func(tag int) hotstuff.ProposeMsg {
			parent := qc.BlockHash()
			if r.rng.Intn(5) == 0 {
				parent = r.someBlock().Hash() // parent is not the certified block
			}
			r.nextCmd[9]++
			batch := &clientpb.Batch{Commands: []*clientpb.Command{{ClientID: 9, SequenceNumber: uint64(r.nextCmd[9]), Data: []byte{byte(tag)}}}}
			if len(r.cmdLog) > 0 && r.rng.Intn(2) == 0 {
				// a Byzantine leader may re-propose client commands, also ones that are committed already
				c := r.cmdLog[r.rng.Intn(len(r.cmdLog))]
				batch.Commands = append(batch.Commands, &clientpb.Command{ClientID: uint32(c[0]), SequenceNumber: uint64(c[1]), Data: []byte{byte(c[0]), byte(c[1]), byte(c[1] >> 8)}})
			}
			b := hotstuff.NewBlock(parent, qc, batch, view, id)
			r.regBlock(b)
			for _, x := range by {
				r.node(x).BC.Store(b)
			}
			pm := hotstuff.ProposeMsg{ID: id, Block: b}
			if r.rng.Intn(3) == 0 {
				// the optional aggregate QC of a proposal is decoded for every ruleset: an empty one (no certificates, no signature)
				// rides along -- it must not buy the block anything
				pm.AggregateQC = &hotstuff.AggregateQC{}
			}
			return pm
		}
		var msgs []envelope
		p1 := mk(1)
		if r.rng.Intn(2) == 0 { // equivocate: two blocks for one view to different replicas
			p2 := mk(2)
			// the two audiences may overlap: a replica can be shown both blocks of the view
			for i, n := range hon {
				switch c := r.rng.Intn(4); {
				case c == 0:
					msgs = append(msgs, envelope{from: id, to: n.ID, msg: p1}, envelope{from: id, to: n.ID, msg: p2})
				case (c+i)%2 == 0:
					msgs = append(msgs, envelope{from: id, to: n.ID, msg: p1})
				default:
					msgs = append(msgs, envelope{from: id, to: n.ID, msg: p2})
				}
			}
			r.logByz("equivocate", id, msgs)
		} else {
			for _, n := range subset() {
				msgs = append(msgs, envelope{from: id, to: n.ID, msg: p1})
			}
			r.logByz("propose", id, msgs)
		}
	case a < 6: // votes for any known block, to anybody (double votes included)
		b := r.someBlock()
		pc, err := bn.Auth.CreatePartialCert(b)
		if err != nil {
			return
		}
		var msgs []envelope
		for _, n := range subset() {
			msgs = append(msgs, envelope{from: id, to: n.ID, msg: hotstuff.VoteMsg{ID: id, PartialCert: pc}})
		}
		r.logByz("vote", id, msgs)
	case a < 8: // timeouts for arbitrary views with arbitrary sync info
		view := hotstuff.View(max(1, mv+r.rng.Intn(4)-1))
		si := hotstuff.NewSyncInfo()
		if len(r.qcPool) > 0 && r.rng.Intn(3) > 0 {
			si.SetQC(r.qcPool[r.rng.Intn(len(r.qcPool))])
		} else if r.rng.Intn(2) == 0 {
			si.SetQC(r.forgeQC(r.someBlock()))
		}
		if r.rng.Intn(4) == 0 {
			si.SetTC(r.forgeTC(hotstuff.View(1 + r.rng.Intn(mv+1))))
		} else if len(r.tcPool) > 0 && r.rng.Intn(3) == 0 {
			tc := r.tcPool[r.rng.Intn(len(r.tcPool))]
			if r.rng.Intn(3) == 0 {
				tc = hotstuff.NewTimeoutCert(tc.Signature(), tc.View()+hotstuff.View(1+r.rng.Intn(4))) // relabelled
			}
			si.SetTC(tc)
		}
		vs, err := bn.Auth.Sign(view.ToBytes())
		if err != nil {
			return
		}
		tm := hotstuff.TimeoutMsg{ID: id, View: view, ViewSignature: vs, SyncInfo: si}
		if r.agg {
			if ms, err := bn.Auth.Sign(tm.ToBytes()); err == nil {
				tm.MsgSignature = ms
			}
		}
		var msgs []envelope
		for _, n := range subset() {
			msgs = append(msgs, envelope{from: id, to: n.ID, msg: tm})
		}
		r.logByz("timeout", id, msgs)
	default: // new-view with replayed, relabelled or forged certificates
		si := hotstuff.NewSyncInfo()
		switch r.rng.Intn(6) {
		case 4, 5: // a genuine QC accompanied by a forged TC (own signatures only / relabelled / unsigned)
			if len(r.qcPool) > 0 {
				qc := r.qcPool[len(r.qcPool)-1-r.rng.Intn(min(len(r.qcPool), 3))]
				si.SetQC(qc)
				tv := hotstuff.View(1 + r.rng.Intn(int(qc.View())+2))
				si.SetTC(r.forgeTC(tv))
			}
		case 0:
			si.SetQC(r.forgeQC(r.someBlock()))
		case 1:
			if len(r.tcPool) > 0 {
				tc := r.tcPool[r.rng.Intn(len(r.tcPool))]
				si.SetTC(hotstuff.NewTimeoutCert(tc.Signature(), tc.View()+hotstuff.View(r.rng.Intn(6))))
			}
		case 2:
			if len(r.aggPool) > 0 {
				ag := r.aggPool[r.rng.Intn(len(r.aggPool))]
				si.SetAggQC(hotstuff.NewAggregateQC(ag.QCs(), ag.Sig(), ag.View()+hotstuff.View(r.rng.Intn(3))))
			}
		default:
			if len(r.qcPool) > 0 {
				si.SetQC(r.qcPool[r.rng.Intn(len(r.qcPool))])
			}
			// a certificate that reaches a replica BEFORE the block it certifies (the replica missed the proposal and has to fetch the
			// block to judge the certificate): genuine, or relabelled with a view at/above the replica's own, or below the block's
			type lack struct {
				x  *hx.Node
				qc hotstuff.QuorumCert
			}
			var lacks []lack
			for i := len(r.qcPool) - 1; i >= 0 && i >= len(r.qcPool)-12; i-- {
				qc := r.qcPool[i]
				for _, x := range hon {
					if _, have := x.BC.LocalGet(qc.BlockHash()); !have && qc.Signature() != nil {
						lacks = append(lacks, lack{x, qc})
					}
				}
			}
			if len(lacks) > 0 && r.rng.Intn(4) > 0 {
				l := lacks[r.rng.Intn(len(lacks))]
				qc := l.qc
				switch r.rng.Intn(4) {
				case 0, 1:
					hv := max(qc.View(), l.x.VS.View())
					qc = hotstuff.NewQuorumCert(qc.Signature(), hv+hotstuff.View(r.rng.Intn(3)), qc.BlockHash())
				case 2:
					if qc.View() > 1 {
						qc = hotstuff.NewQuorumCert(qc.Signature(), hotstuff.View(1+r.rng.Intn(int(qc.View())-1)), qc.BlockHash())
					}
				}
				si = hotstuff.NewSyncInfoWith(qc)
				r.logByz("newview", id, []envelope{{from: id, to: l.x.ID, msg: hotstuff.NewViewMsg{ID: id, SyncInfo: si, FromNetwork: true}}})
				return
			}
		}
		var msgs []envelope
		for _, n := range subset() {
			msgs = append(msgs, envelope{from: id, to: n.ID, msg: hotstuff.NewViewMsg{ID: id, SyncInfo: si, FromNetwork: true}})
		}
		r.logByz("newview", id, msgs)
	}
}

// ---- scheduler ------------------------------------------------------------------------------------
// timeoutWave: the view timers of the given replicas fire one after the other (timers are roughly synchronised), and each
// replica has received the timeouts of those before it when its own timer fires -- the last one's own timeout completes
// the quorum.
func (r *run) timeoutWave(members []*hx.Node) {
	order := r.rng.Perm(len(members))
	for _, oi := range order {
		y := members[oi]
		for i := 0; i < len(r.net); {
			e := r.net[i]
			if t, ok := e.msg.(hotstuff.TimeoutMsg); ok && e.to == y.ID && t.View == y.VS.View() && !r.byz[e.to] &&
				(r.isoVictim == 0 || (e.from != r.isoVictim && e.to != r.isoVictim)) {
				r.deliverIdx(i)
				continue
			}
			i++
		}
		r.step("timeout", y, obj{"type": "localtimeout", "view": int(y.VS.View())}, func() { y.FireTimeout() })
	}
}

func (r *run) deliverIdx(i int) {
	e := r.net[i]
	r.net = append(r.net[:i], r.net[i+1:]...)
	dst := r.node(e.to)
	if r.byz[e.to] {
		// the adversary learns what it is sent
		if v, ok := e.msg.(hotstuff.VoteMsg); ok {
			r.pcPool = append(r.pcPool, v.PartialCert)
		}
		r.harvest(e.msg)
		return
	}
	ev := r.absMsg(e.msg)
	r.step("deliver", dst, ev, func() { dst.Deliver(e.msg) })
}

func protoCmd(args []string) error {
	fs := flag.NewFlagSet("proto", flag.ExitOnError)
	out := fs.String("out", "", "output ndjson")
	seed := fs.Int64("seed", 1, "seed")
	runs := fs.Int("runs", 20, "runs")
	maxSteps := fs.Int("steps", 120, "scheduler steps per run")
	rulesets := fs.String("rulesets", "chainedhotstuff,simplehotstuff,fasthotstuff", "rulesets")
	sizes := fs.String("ns", "4,7", "cluster sizes")
	syncSuffix := fs.Bool("heal", false, "end every run with a synchronous suffix (C05)")
	suffixViews := fs.Int("suffix", 12, "views of the synchronous suffix")
	noByz := fs.Bool("nobyz", false, "crash faults only (C05)")
	only := fs.String("only", "", "play only this scenario of the library (late-leader, laggard)")
	lagViews := fs.Int("lagviews", 0, "long-laggard: number of views the laggard is cut off for (0: 10..14)")
	faultFree := fs.Int("faultfree", 0, "every k-th run is fault-free and synchronous from the start (C05)")
	_ = fs.Parse(args)
	o, err := newNDJSON(*out)
	if err != nil {
		return err
	}
	master := rand.New(rand.NewSource(*seed))
	rss := splitComma(*rulesets)
	ns := parseInts(*sizes)
	for ri := 0; ri < *runs; ri++ {
		rng := rand.New(rand.NewSource(master.Int63()))
		n := ns[ri%len(ns)]
		rs := rss[(ri/len(ns))%len(rss)]
		f := hotstuff.NumFaulty(n)
		nb := rng.Intn(f + 1)
		ff := *faultFree > 0 && ri%*faultFree == 0
		if *only != "" {
			ff = false
		}
		if ff || ri%3 == 2 || *only != "" {
			nb = 0 // fault-free runs and the scenario library (which cuts a replica off itself) have no faulty replica
		}
		if *only == "coop" {
			nb = f // scenario "coop": the Byzantine replicas lead their views with well-formed blocks that repeat client commands
		}
		byz := map[hotstuff.ID]bool{}
		for len(byz) < nb {
			byz[hotstuff.ID(1+rng.Intn(n))] = true
		}
		// leader schedule: round-robin, fixed, or scripted (Byzantine leaders included)
		script := make([]int, 400)
		lmode := []string{"rr", "fixed", "script"}[rng.Intn(3)]
		fixedLeader := 1
		for byz[hotstuff.ID(fixedLeader)] {
			fixedLeader++
		}
		switch lmode {
		case "fixed":
			for i := range script {
				script[i] = fixedLeader
			}
		case "script":
			for i := range script {
				script[i] = 1 + rng.Intn(n)
			}
		}
		lrOf := func(cfg *core.RuntimeConfig) leaderrotation.LeaderRotation { return scriptLR{n: n, script: &script} }
		batch := uint32(1)
		if *only == "client-pause" {
			batch = 2
		}
		nodes, err := hx.NewNodes(hx.NodeOpts{N: n, Scheme: crypto.NameECDSA, Ruleset: rs, Leader: lrOf, BatchSize: batch})
		if err != nil {
			return err
		}
		if *only == "client-pause" {
			for _, x := range nodes {
				x.Watchdog = 120 * time.Millisecond // a leader without commands waits until its view timer fires
			}
		}
		r := &run{forkCount: ri, o: o, rng: rng, n: n, q: hotstuff.QuorumSize(n), nodes: nodes, byz: byz, lr: scriptLR{n: n, script: &script}, script: &script, fixedLeader: fixedLeader, lmode: lmode,
			agg: rs == "fasthotstuff", blockID: map[hotstuff.Hash]int{hotstuff.GetGenesis().Hash(): 0},
			blocks: map[int]*hotstuff.Block{0: hotstuff.GetGenesis()}, nextCmd: map[int]int{}, fetchOK: 60 + rng.Intn(41),
			coop: rng.Intn(2) == 0, coopDone: map[int]bool{}, bytesID: map[int]string{}}
		if *noByz {
			// crash/silent faults instead of Byzantine ones
		}
		fetch := func(by hotstuff.ID, h hotstuff.Hash) (*hotstuff.Block, bool) {
			if by == r.fetchDeaf {
				return r.fetchFrom(by, h, false)
			}
			return r.fetchFrom(by, h, rng.Intn(100) < r.fetchOK)
		}
		for _, x := range nodes {
			x.Fetch = fetch
		}
		var byzList []int
		for id := range byz {
			byzList = append(byzList, int(id))
		}
		sort.Ints(byzList)
		leaders := []int{}
		for v := 1; v <= 400; v++ {
			leaders = append(leaders, int(r.lr.GetLeader(hotstuff.View(v))))
		}
		o.emit(obj{"op": "init", "n": n, "f": f, "q": r.q, "rs": rs, "byz": byzList, "leaders": leaders, "lmode": lmode, "agg": r.agg,
			"crashOnly": *noByz, "chain": nodes[0].Rules.ChainLength()})
		r.thin = *only == "client-pause"
		r.topUp()
		for _, x := range r.honest() {
			x := x
			r.step("start", x, obj{"type": "start"}, func() { x.Start() })
		}
		silent := *noByz
		// per-run fault rates (per mille): calm runs reach commits, rough runs stress the pacemaker
		pLose := []int{0, 0, 20, 60}[rng.Intn(4)]
		pDup := []int{0, 10, 30}[rng.Intn(3)]
		pTimeout := []int{3, 10, 30, 100}[rng.Intn(4)]
		pByz := []int{10, 40, 100}[rng.Intn(3)]
		pNewest := []int{0, 10, 50}[rng.Intn(3)]
		// send faults: in runs with Byzantine action (which the replica model does not follow anyway) a replica's unicast sends
		// (its vote, its new-view) sometimes fail with an error, as on a broken connection
		if len(byz) > 0 && !silent {
			pFail := []int{0, 3, 8}[rng.Intn(3)]
			for _, x := range r.honest() {
				x.FailSend = func(string) bool { return rng.Intn(100) < pFail }
			}
		}
		if len(byz) == 0 {
			pByz = 0
		}
		if *only == "coop" {
			r.coop = true
			pLose, pDup, pTimeout, pByz, pNewest = 0, 0, 3, 5, 0
		}
		// ---- asynchronous / adversarial phase
		// isolation plan: for runs of 2-5 consecutive views one honest replica (often the leader of one of those views) is cut off
		isoPlan := make([]int, 80)
		scenario := ""
		defer func(sc *string) { _ = *sc }(&scenario)
		if *only == "late-leader" && lmode == "fixed" {
			lmode, r.lmode = "script", "script"
		}
		var deafL hotstuff.ID
		deafLeft := -1
		if (ri%6 == 5 || *only == "late-leader") && *only != "long-laggard" && *only != "deaf-laggard" && !ff && lmode != "fixed" {
			// scenario library: "late leader" -- one replica leads a stretch of views and is cut off in every other one of
			// them: the others enter the next view on a timeout certificate and only then see its proposal, which carries a
			// certificate older than their view
			scenario = "late-leader"
			pLose, pDup, pTimeout, pNewest = 0, 0, 3, 0
			hon := r.honest()
			l := int(hon[rng.Intn(len(hon))].ID)
			a := 2 + rng.Intn(4)
			// ... and when the stretch is over it falls silent for good (the synchronous quorum of the suffix excludes it)
			if len(hon)-1 >= r.q && rng.Intn(4) > 0 {
				r.silentAfter, r.silentView = hotstuff.ID(l), a+6+rng.Intn(2)
			}
			for v := a; v < a+7 && v < len(script); v++ {
				script[v-1] = l
				if (v-a)%2 == 0 {
					isoPlan[v] = l
				}
			}
			// the leader schedule changed: tell the trace
			var nl []int
			for v := 1; v <= 400; v++ {
				nl = append(nl, int(r.lr.GetLeader(hotstuff.View(v))))
			}
			o.emit(obj{"op": "relead", "leaders": nl})
		} else if *only == "long-laggard" || *only == "deaf-laggard" {
			// scenario library: "long laggard" -- one replica is cut off from the very start for a dozen views (the views it leads time
			// out, so little or nothing is committed meanwhile); then another replica falls silent for good and the laggard is needed:
			// it has to catch up on everything it missed, by fetching, and lead its views
			scenario = "long-laggard"
			pLose, pDup, pTimeout, pNewest = 0, 0, 3, 0
			hon := r.honest()
			l := hon[rng.Intn(len(hon))]
			c := hon[rng.Intn(len(hon))]
			for c.ID == l.ID {
				c = hon[rng.Intn(len(hon))]
			}
			last := 10 + rng.Intn(5)
			if *lagViews > 0 {
				last = *lagViews + rng.Intn(5)
			}
			if *only == "deaf-laggard" {
				// ... variant "deaf laggard": when the other replica has fallen silent, the laggard is reconnected, but what was held back
				// for it is lost and for a while its block requests fail: it receives the timeouts of the others -- who are stuck and can
				// only repeat them -- without being able to judge the certificates they carry.  Then the network heals.
				scenario = "deaf-laggard"
				last = 4 + rng.Intn(6)
				deafL = l.ID
			}
			for v := 1; v <= last && v < len(isoPlan); v++ {
				isoPlan[v] = int(l.ID)
			}
			if len(hon)-1 >= r.q {
				r.silentAfter, r.silentView = c.ID, last+1
			}
			r.fetchOK = 100
		} else if (ri%3 == 2 || *only == "laggard") && !ff {
			// scenario library: "laggard" -- a calm run in which the leader-to-be of view w+1 is cut off from view w on for a few
			// views and then reconnected, seeing the newest traffic first
			scenario = "laggard"
			pLose, pDup, pTimeout, pNewest = 0, 0, 3, 50
			w := 1 + rng.Intn(8)
			if l := r.lr.GetLeader(hotstuff.View(w + 1)); l != 0 && !r.byz[l] {
				for v := w; v < w+3+rng.Intn(3); v++ {
					isoPlan[v] = int(l)
				}
			}
		} else if isoP := []int{0, 15, 35}[rng.Intn(3)]; isoP > 0 {
			for v := 1; v < len(isoPlan); v++ {
				if rng.Intn(100) < isoP {
					hon := r.honest()
					victim := int(hon[rng.Intn(len(hon))].ID)
					if l := r.lr.GetLeader(hotstuff.View(v + rng.Intn(3))); rng.Intn(2) == 0 && l != 0 && !r.byz[l] {
						victim = int(l)
					}
					for k := 0; k < 2+rng.Intn(4) && v < len(isoPlan); k++ {
						isoPlan[v] = victim
						v++
					}
				}
			}
		}
		for s := 0; s < *maxSteps && !ff; s++ {
			if r.silentAfter != 0 && r.maxViewWithout(r.silentAfter) >= r.silentView {
				if deafL == 0 {
					break
				}
				if deafLeft < 0 {
					deafLeft = 60 + rng.Intn(80)
					var keep []envelope
					for _, e := range r.net {
						if e.from != deafL && e.to != deafL {
							keep = append(keep, e)
						}
					}
					r.net = keep
					r.fetchDeaf = deafL
					for v := range isoPlan {
						isoPlan[v] = int(r.silentAfter)
					}
				}
				if deafLeft--; deafLeft <= 0 {
					r.fetchDeaf = 0
					break
				}
			}
			r.topUp()
			// partitions, per view as in Twins: while the most advanced honest replica is in view v, the replica isoPlan[v]
			// (if any) is cut off from everybody: its traffic is held back (delayed, not lost) until the plan lets it back in
			r.isoVictim = 0
			if ep := r.maxConnectedView(); ep < len(isoPlan) {
				r.isoVictim = hotstuff.ID(isoPlan[ep])
			}
			if !silent && len(r.byz) > 0 && rng.Intn(8) == 0 && r.forkOpportunity() {
				r.adversary()
				continue
			}
			if !silent {
				r.coopMaybe()
			}
			c := rng.Intn(1000)
			switch {
			case c < pLose && len(r.net) > 0: // lose
				i := rng.Intn(len(r.net))
				r.net = append(r.net[:i], r.net[i+1:]...)
			case c < pLose+pDup && len(r.net) > 0: // duplicate
				e := r.net[rng.Intn(len(r.net))]
				r.seq++
				e.seq = r.seq
				r.net = append(r.net, e)
			case c < pLose+pDup+pTimeout || len(r.net) == 0: // a view timer fires
				hon := r.honest()
				x := hon[rng.Intn(len(hon))]
				if rng.Intn(3) == 0 {
					// ... and so do the timers of the others in that view, one after the other
					var same []*hx.Node
					for _, y := range hon {
						if y.VS.View() == x.VS.View() && y.ID != r.isoVictim {
							same = append(same, y)
						}
					}
					r.timeoutWave(same)
					break
				}
				r.step("timeout", x, obj{"type": "localtimeout", "view": int(x.VS.View())}, func() { x.FireTimeout() })
			case c < pLose+pDup+pTimeout+pByz && !silent:
				r.adversary()
			default: // deliver (biased towards old messages; reordering is free)
				var eligible []int
				for i, e := range r.net {
					if r.isoVictim == 0 || (e.from != r.isoVictim && e.to != r.isoVictim) {
						eligible = append(eligible, i)
					}
				}
				if len(eligible) == 0 {
					hon := r.honest()
					x := hon[rng.Intn(len(hon))]
					r.step("timeout", x, obj{"type": "localtimeout", "view": int(x.VS.View())}, func() { x.FireTimeout() })
					break
				}
				i := eligible[0]
				switch {
				case rng.Intn(100) < pNewest: // newest first (a replica that was cut off may see the latest certificate first)
					i = eligible[len(eligible)-1]
				case rng.Intn(4) == 0:
					i = eligible[rng.Intn(len(eligible))]
				}
				r.deliverIdx(i)
			}
		}
		// ---- synchronous suffix (C05): a live quorum of honest replicas exchanges all messages before any timer fires
		if *syncSuffix {
			r.heal(*suffixViews, ff)
		}
		for _, x := range nodes {
			x.Stop()
		}
		o.emit(obj{"op": "end", "steps": r.steps})
	}
	return o.close()
}

// heal: fix a live quorum M of honest replicas; leaders of later views are members of M (the scheduler
// relabels nothing: it only fires timers while the current leader is outside M or nothing is pending);
// every message among M is delivered before any timer of M fires; everything else is lost.
func (r *run) heal(views int, faultFree bool) {
	hon := r.honest()
	// choose M: q honest replicas (all replicas in a fault-free run)
	if r.silentAfter != 0 {
		var rest []*hx.Node
		for _, x := range hon {
			if x.ID != r.silentAfter {
				rest = append(rest, x)
			}
		}
		hon = rest
	}
	perm := r.rng.Perm(len(hon))
	inM := map[hotstuff.ID]bool{}
	k := r.q
	if faultFree {
		k = len(hon)
	}
	for _, i := range perm[:k] {
		inM[hon[i].ID] = true
		r.live = append(r.live, hon[i].ID)
	}
	r.healed = true
	// messages from before the heal are lost (a fault-free run has no "before")
	if !faultFree {
		r.net = nil
	}
	startView := r.maxHonestView()
	// the views after the heal are led by members of the live quorum
	if r.lmode == "fixed" && !inM[hotstuff.ID(r.fixedLeader)] {
		// swap a member for the fixed leader so that the premise of the property holds
		delete(inM, r.live[0])
		r.live[0] = hotstuff.ID(r.fixedLeader)
		inM[r.live[0]] = true
	}
	if r.lmode != "fixed" {
		for v := startView + 1; v <= len(*r.script); v++ {
			(*r.script)[v-1] = int(r.live[v%len(r.live)])
		}
	}
	var newLeaders []int
	for v := 1; v <= 400; v++ {
		newLeaders = append(newLeaders, int(r.lr.GetLeader(hotstuff.View(v))))
	}
	r.o.emit(obj{"op": "heal", "faultfree": faultFree, "leaders": newLeaders, "members": func() []int {
		var m []int
		for id := range inM {
			m = append(m, int(id))
		}
		sort.Ints(m)
		return m
	}(), "view": startView})
	budget := 400 * views // scheduler moves of the suffix
	rounds := 0           // rounds in which the timers of M fired
	pausedOnce, pauseRounds := false, 0
	for budget > 0 && (rounds <= 30 || r.paused) {
		budget--
		if r.thin && !pausedOnce {
			// client-pause scenario: once the quorum has made some progress the clients fall silent for a few view timers, then
			// come back; progress must resume (the bound is counted from their return)
			far := true
			for id := range inM {
				far = far && int(r.node(id).VS.View()) >= startView+5
			}
			if far {
				pausedOnce, r.paused, pauseRounds = true, true, rounds
				r.o.emit(obj{"op": "pause"})
			}
		}
		starvedNow := 0
		for id := range inM {
			starvedNow += r.node(id).StarvedTotal
		}
		if r.paused && rounds >= pauseRounds+3 && starvedNow >= 2 {
			r.paused = false
			startView = r.maxHonestView()
			rounds = 0
			r.o.emit(obj{"op": "heal", "faultfree": false, "leaders": newLeaders, "members": func() []int {
				var m []int
				for id := range inM {
					m = append(m, int(id))
				}
				sort.Ints(m)
				return m
			}(), "view": startView})
		}
		r.topUp()
		done := true
		for id := range inM {
			done = done && int(r.node(id).VS.View()) >= startView+views
		}
		if done && (!r.thin || (pausedOnce && !r.paused)) { // (the client-pause scenario ends only after the clients have returned)
			break
		}
		// deliver what is in flight among M first (one message per move); everything else is lost
		progressed := false
		for i := 0; i < len(r.net); {
			e := r.net[i]
			if inM[e.from] && inM[e.to] {
				r.deliverIdx(i)
				progressed = true
				break
			}
			r.net = append(r.net[:i], r.net[i+1:]...)
		}
		if progressed {
			continue
		}
		// nothing in flight: the timers of M fire (all of them, one after the other)
		minView := 1 << 30
		for id := range inM {
			minView = min(minView, int(r.node(id).VS.View()))
		}
		if minView >= startView+views && (!r.thin || (pausedOnce && !r.paused)) {
			break
		}
		rounds++
		if r.rng.Intn(2) == 0 {
			var ms []*hx.Node
			for _, id := range r.live {
				ms = append(ms, r.node(id))
			}
			r.timeoutWave(ms)
			continue
		}
		for _, id := range r.live {
			x := r.node(id)
			r.step("timeout", x, obj{"type": "localtimeout", "view": int(x.VS.View())}, func() { x.FireTimeout() })
		}
	}
}

// panicSite returns the innermost frames of the repository that were running when a panic occurred.
func panicSite() string {
	pcs := make([]uintptr, 40)
	k := runtime.Callers(3, pcs)
	frames := runtime.CallersFrames(pcs[:k])
	site := ""
	cnt := 0
	for {
		fr, more := frames.Next()
		if strings.Contains(fr.File, "/repo/") && !strings.Contains(fr.File, "internal/verif") {
			site += fmt.Sprintf("%s:%d ", fr.File[strings.Index(fr.File, "/repo/")+6:], fr.Line)
			cnt++
		}
		if !more || cnt >= 4 {
			break
		}
	}
	return site
}
