//go:build verif

package main

import (
	"flag"
	"fmt"
	"math/rand"

	"github.com/relab/hotstuff"
	"github.com/relab/hotstuff/core"
	"github.com/relab/hotstuff/internal/verif/hx"
	"github.com/relab/hotstuff/security/cert"
	"github.com/relab/hotstuff/security/crypto"
)

func init() { subcommands["c02"] = c02 }

type sigCase struct {
	mut string
	sig hx.AbsSig
}

func seqInts(a, b int) []int {
	var out []int
	for i := a; i <= b; i++ {
		out = append(out, i)
	}
	return out
}

// sigMutations builds the structural mutations of a signature in which signer s should sign msgOf(s).
func sigMutations(w *hx.World, rng *rand.Rand, n, q int, msgOf, altOf func(int) hx.Msg) []sigCase {
	var out []sigCase
	bls := w.Scheme == crypto.NameBLS12
	good := func(signers []int) hx.AbsSig {
		a := hx.AbsSig{T: "multi", E: []hx.Entry{}, Bits: []int{}}
		if bls {
			a.T = "bls"
		}
		for _, s := range signers {
			if bls {
				a.E = append(a.E, hx.Entry{0, s, msgOf(s)})
				a.Bits = append(a.Bits, s)
			} else {
				a.E = append(a.E, hx.Entry{s, s, msgOf(s)})
			}
		}
		return a
	}
	add := func(mut string, a hx.AbsSig) { out = append(out, sigCase{mut, a}) }
	pick := func(k int) []int { // k distinct members in random order
		p := rng.Perm(n)
		s := make([]int, 0, k)
		for _, x := range p[:k] {
			s = append(s, x+1)
		}
		return s
	}
	sizes := map[int]bool{0: true, 1: true, q - 1: true, q: true, q + 1: true, n: true}
	for k := range sizes {
		if k < 0 || k > n {
			continue
		}
		add(fmt.Sprintf("plain-%d", k), good(seqInts(1, k)))
		add(fmt.Sprintf("plain-shuffled-%d", k), good(pick(k)))
	}
	add("nil", hx.AbsSig{T: "nil", E: []hx.Entry{}, Bits: []int{}})
	outsider := n + 1
	base := pick(q)
	if !bls {
		// a signer repeated: q copies of one; q-1 distinct plus one repeat; q distinct plus a repeat
		if q >= 1 {
			a := good([]int{base[0]})
			for len(a.E) < q {
				a.E = append(a.E, a.E[0])
			}
			add("dup-all", a)
			a = good(base[:q-1])
			if q >= 2 {
				a.E = append(a.E, a.E[rng.Intn(q-1)])
				add("dup-fill", a)
			}
			a = good(base)
			a.E = append(a.E, a.E[rng.Intn(q)])
			add("dup-extra", a)
		}
		if q >= 1 {
			// unknown signer
			a := good(base[:q-1])
			a.E = append(a.E, hx.Entry{outsider, outsider, msgOf(outsider)})
			add("outsider-fill", a)
			a = good(base)
			a.E = append(a.E, hx.Entry{outsider, outsider, msgOf(outsider)})
			add("outsider-extra", a)
			a = good(base[:q-1])
			a.E = append(a.E, hx.Entry{0, base[q-1], msgOf(base[q-1])})
			add("claimed-zero", a)
			// foreign message
			a = good(base)
			i := rng.Intn(q)
			a.E[i] = hx.Entry{base[i], base[i], altOf(base[i])}
			add("foreign-one", a)
			a = good(base)
			for i := range a.E {
				a.E[i] = hx.Entry{base[i], base[i], altOf(base[i])}
			}
			add("foreign-all", a)
			// garbage bytes
			a = good(base)
			a.E[rng.Intn(q)][1] = 0
			add("garbage-one", a)
			// claimed id differs from the real signer
			if q >= 2 {
				a = good(base)
				a.E[0][0], a.E[1][0] = a.E[1][0], a.E[0][0]
				add("swapped-ids", a)
			}
			if n > q {
				// a member that did not sign is claimed with somebody else's signature
				rest := []int{}
				for _, x := range seqInts(1, n) {
					found := false
					for _, y := range base {
						found = found || x == y
					}
					if !found {
						rest = append(rest, x)
					}
				}
				a = good(base[:q-1])
				a.E = append(a.E, hx.Entry{rest[0], base[0], msgOf(base[0])})
				add("borrowed-signature", a)
			}
		}
		add("empty", hx.AbsSig{T: "multi", E: []hx.Entry{}, Bits: []int{}})
	} else {
		add("empty", hx.AbsSig{T: "bls", E: []hx.Entry{}, Bits: []int{}})
		if q >= 1 {
			a := good(base[:q-1]) // claims q, only q-1 signed
			a.Bits = append([]int{}, base...)
			add("bits-superset", a)
			a = good(base[:q-1]) // one signature counted twice in the aggregate
			if q >= 2 {
				a.E = append(a.E, a.E[0])
				a.Bits = append([]int{}, base...)
				add("atom-twice", a)
			}
			a = good(base)
			a.E = append(a.E, hx.Entry{0, outsider, msgOf(outsider)})
			add("atoms-superset", a)
			a = good(base[:q-1])
			a.E = append(a.E, hx.Entry{0, outsider, msgOf(outsider)})
			a.Bits = append(a.Bits, outsider)
			add("outsider-fill", a)
			// the bit-field padded with ids outside the configuration, nothing signed by them
			a = good(base[:q-1])
			a.Bits = append(a.Bits, outsider)
			add("bits-pad-unknown", a)
			if q >= 3 {
				a = good(base[:q-2])
				a.Bits = append(a.Bits, outsider, outsider+1)
				add("bits-pad-unknown-two", a)
			}
			a = hx.AbsSig{T: "bls", E: []hx.Entry{}, Bits: []int{}}
			for k := 0; k < q; k++ {
				a.Bits = append(a.Bits, outsider+k)
			}
			add("bits-only-unknown", a)
			a = good(base)
			a.Bits = append(a.Bits, outsider+3)
			add("bits-extra-unknown", a)
			a = good(base)
			i := rng.Intn(q)
			a.E[i] = hx.Entry{0, base[i], altOf(base[i])}
			add("foreign-one", a)
			a = good(base)
			for i := range a.E {
				a.E[i] = hx.Entry{0, base[i], altOf(base[i])}
			}
			add("foreign-all", a)
			if q >= 2 {
				a = good(base) // right count, one claimed id replaced by a non-signer
				if n > q {
					for _, x := range seqInts(1, n) {
						found := false
						for _, y := range base {
							found = found || x == y
						}
						if !found {
							a.Bits[0] = x
							break
						}
					}
					add("bits-other-member", a)
				}
			}
		}
	}
	// random structures
	for r := 0; r < 6; r++ {
		k := rng.Intn(n + 3)
		a := hx.AbsSig{T: "multi", E: []hx.Entry{}, Bits: []int{}}
		if bls {
			a.T = "bls"
		}
		for i := 0; i < k; i++ {
			c := 1 + rng.Intn(n+1)
			s := c
			m := msgOf(c)
			switch rng.Intn(10) {
			case 0:
				s = 1 + rng.Intn(n+1)
				m = msgOf(s)
			case 1:
				m = altOf(c)
			case 2:
				if !bls {
					s = 0
				}
			}
			if bls {
				a.E = append(a.E, hx.Entry{0, s, m})
				if rng.Intn(8) > 0 {
					dup := false
					for _, b := range a.Bits {
						dup = dup || b == c
					}
					if !dup {
						a.Bits = append(a.Bits, c)
					}
				}
			} else {
				a.E = append(a.E, hx.Entry{c, s, m})
			}
		}
		add("random", a)
	}
	return out
}

func verdict(f func() error) (ok bool, panicked bool, errText string) {
	defer func() {
		if r := recover(); r != nil {
			ok, panicked, errText = false, true, fmt.Sprint(r)
		}
	}()
	if err := f(); err != nil {
		return false, false, err.Error()
	}
	return true, false, ""
}

func c02(args []string) error {
	fs := flag.NewFlagSet("c02", flag.ExitOnError)
	out := fs.String("out", "", "output ndjson")
	seed := fs.Int64("seed", 1, "seed")
	nsFlag := fs.String("ns", "1,2,3,4,5,7,10,13", "cluster sizes")
	schemes := fs.String("schemes", "ecdsa,eddsa,bls12", "schemes")
	reps := fs.Int("reps", 1, "repetitions of the mutation families with different random choices")
	_ = fs.Parse(args)
	rng := rand.New(rand.NewSource(*seed))
	o, err := newNDJSON(*out)
	if err != nil {
		return err
	}
	for _, scheme := range splitComma(*schemes) {
		for _, n := range parseInts(*nsFlag) {
			q := hotstuff.QuorumSize(n)
			// signers: n members + an outsider; verifiers: member 1 without cache, member n with a tiny cache
			signers, err := hx.NewSecCluster(hx.SecOpts{N: n + 1, Scheme: scheme})
			if err != nil {
				return err
			}
			keys := make([]hotstuff.PrivateKey, n)
			for i := range keys {
				keys[i] = signers[i].Key
			}
			plain, err := hx.NewSecCluster(hx.SecOpts{N: n, Scheme: scheme, Keys: keys})
			if err != nil {
				return err
			}
			cached, err := hx.NewSecCluster(hx.SecOpts{N: n, Scheme: scheme, Keys: keys, Opts: []core.RuntimeOption{core.WithCache(5)}})
			if err != nil {
				return err
			}
			// a replica that was asked to verify a certificate before its membership was installed
			early, err := hx.NewSecCluster(hx.SecOpts{N: n, Scheme: scheme, Keys: keys, Early: true})
			if err != nil {
				return err
			}
			w := hx.NewWorld(scheme, signers, n)
			for _, s := range append(append(append([]*hx.Sec{}, plain...), cached...), early...) {
				s.BC.Store(w.Blocks["B1"])
				s.BC.Store(w.Blocks["B2"])
			}
			type verifier struct {
				auth  *cert.Authority
				cache bool
			}
			verifiers := []verifier{{plain[0].Auth, false}, {cached[n-1].Auth, true}, {early[n/2].Auth, false}}
			emitQC := func(mut string, honest bool, q hx.AbsQC) {
				qc := w.MkQC(q)
				for _, v := range verifiers {
					ok, pan, et := verdict(func() error { return v.auth.VerifyQuorumCert(qc) })
					o.emit(obj{"kind": "qc", "n": n, "scheme": scheme, "cache": v.cache, "mut": mut, "honest": honest, "qc": q, "ok": ok, "panic": pan, "err": et})
				}
			}
			emitTC := func(mut string, honest bool, t hx.AbsTC) {
				tc := w.MkTC(t)
				for _, v := range verifiers {
					ok, pan, et := verdict(func() error { return v.auth.VerifyTimeoutCert(tc) })
					o.emit(obj{"kind": "tc", "n": n, "scheme": scheme, "cache": v.cache, "mut": mut, "honest": honest, "tc": t, "ok": ok, "panic": pan, "err": et})
				}
			}
			for rep := 0; rep < *reps; rep++ {
				// ---------------- QC ----------------
				mB := func(name string) func(int) hx.Msg { return func(int) hx.Msg { return hx.BlockMsg(name) } }
				// honest first (so that a cache, if it confuses anything, has seen the good one)
				if n >= 2 {
					for _, k := range []int{q, n} {
						var pcs []hotstuff.PartialCert
						var who []int
						for _, i := range rng.Perm(n)[:k] {
							pc, err := signers[i].Auth.CreatePartialCert(w.Blocks["B1"])
							if err != nil {
								return err
							}
							pcs = append(pcs, pc)
							who = append(who, i+1)
						}
						if k < 2 {
							continue
						}
						qc, err := signers[rng.Intn(n)].Auth.CreateQuorumCert(w.Blocks["B1"], pcs)
						if err != nil {
							// honest votes of distinct replicas must combine: reported as an honest certificate that is not accepted
							abs := hx.AbsQC{Hash: "B1", View: 1, BlockView: 1, Known: true, Sig: w.GoodSig(who, hx.BlockMsg("B1"))}
							for _, v := range verifiers {
								o.emit(obj{"kind": "qc", "n": n, "scheme": scheme, "cache": v.cache, "mut": "honest-created", "honest": true, "qc": abs, "ok": false, "panic": "", "err": "CreateQuorumCert: " + err.Error()})
							}
							continue
						}
						abs := hx.AbsQC{Hash: "B1", View: int(qc.View()), BlockView: 1, Known: true, Sig: w.GoodSig(hx.IDs(qc.Signature().Participants()), hx.BlockMsg("B1"))}
						for _, v := range verifiers {
							ok, pan, et := verdict(func() error { return v.auth.VerifyQuorumCert(qc) })
							o.emit(obj{"kind": "qc", "n": n, "scheme": scheme, "cache": v.cache, "mut": "honest-created", "honest": true, "qc": abs, "ok": ok, "panic": pan, "err": et})
						}
					}
				}
				// the same vote objects go into several certificates (a retry, a second leader): every one of them is honest and must
				// be accepted, and an earlier one must still be accepted after the later ones were assembled
				if n >= 2 && q >= 2 {
					var pool []hotstuff.PartialCert
					for i := 0; i < n; i++ {
						if pc, err := signers[i].Auth.CreatePartialCert(w.Blocks["B1"]); err == nil {
							pool = append(pool, pc)
						}
					}
					type made struct {
						qc  hotstuff.QuorumCert
						who []int
						tag string
					}
					var mades []made
					build := func(tag string, idx []int) {
						var pcs []hotstuff.PartialCert
						var who []int
						for _, i := range idx {
							pcs = append(pcs, pool[i])
							who = append(who, i+1)
						}
						qc, err := signers[0].Auth.CreateQuorumCert(w.Blocks["B1"], pcs)
						if err != nil {
							abs := hx.AbsQC{Hash: "B1", View: 1, BlockView: 1, Known: true, Sig: w.GoodSig(who, hx.BlockMsg("B1"))}
							for _, v := range verifiers {
								o.emit(obj{"kind": "qc", "n": n, "scheme": scheme, "cache": v.cache, "mut": tag, "honest": true, "qc": abs, "ok": false, "panic": "", "err": "CreateQuorumCert: " + err.Error()})
							}
							return
						}
						mades = append(mades, made{qc, who, tag})
					}
					if len(pool) == n {
						first := seqInts(0, q-1)
						build("reuse-first", first)
						second := append([]int{}, first...)
						if n > q {
							second = append(second[1:], q) // shares all but one vote with the first
						}
						rng.Shuffle(len(second), func(i, j int) { second[i], second[j] = second[j], second[i] })
						build("reuse-second", second)
						build("reuse-all", rng.Perm(n))
						for round := 0; round < 2; round++ { // everything is verified after everything was assembled, twice
							for _, m := range mades {
								abs := hx.AbsQC{Hash: "B1", View: int(m.qc.View()), BlockView: 1, Known: true, Sig: w.GoodSig(hx.IDs(m.qc.Signature().Participants()), hx.BlockMsg("B1"))}
								if len(hx.IDs(m.qc.Signature().Participants())) != len(m.who) {
									abs.Sig = w.GoodSig(m.who, hx.BlockMsg("B1")) // (the claimed set no longer matches who was combined: still judged as the honest certificate it is)
								}
								for _, v := range verifiers {
									ok, pan, et := verdict(func() error { return v.auth.VerifyQuorumCert(m.qc) })
									o.emit(obj{"kind": "qc", "n": n, "scheme": scheme, "cache": v.cache, "mut": m.tag, "honest": true, "qc": abs, "ok": ok, "panic": pan, "err": et})
								}
							}
						}
					}
				}
				for _, sc := range sigMutations(w, rng, n, q, mB("B1"), mB("B2")) {
					emitQC(sc.mut, false, hx.AbsQC{Hash: "B1", View: 1, BlockView: 1, Known: true, Sig: sc.sig})
				}
				quorumSig := w.GoodSig(seqInts(1, q), hx.BlockMsg("B1"))
				for _, v := range []int{0, 2, 100} { // relabelled view
					emitQC("relabel-view", false, hx.AbsQC{Hash: "B1", View: v, BlockView: 1, Known: true, Sig: quorumSig})
				}
				for _, h := range []string{"B2", "B3", "zero", "genesis"} { // relabelled hash
					bv, known := w.BlockViewOf(h)
					emitQC("relabel-hash", false, hx.AbsQC{Hash: h, View: 1, BlockView: bv, Known: known, Sig: quorumSig})
					emitQC("relabel-hash", false, hx.AbsQC{Hash: h, View: max(bv, 0), BlockView: bv, Known: known, Sig: quorumSig})
				}
				nilSig := hx.AbsSig{T: "nil", E: []hx.Entry{}, Bits: []int{}}
				emitQC("genesis", false, hx.AbsQC{Hash: "genesis", View: 0, BlockView: 0, Known: true, Sig: nilSig})
				emitQC("genesis-relabel", false, hx.AbsQC{Hash: "genesis", View: 7, BlockView: 0, Known: true, Sig: nilSig})
				emitQC("b3-good-sig", false, hx.AbsQC{Hash: "B3", View: 3, BlockView: -1, Known: false, Sig: w.GoodSig(seqInts(1, q), hx.BlockMsg("B3"))})
				// ---------------- TC ----------------
				mV := func(v int) func(int) hx.Msg { return func(int) hx.Msg { return hx.ViewMsg(v) } }
				if n >= 2 {
					var tms []hotstuff.TimeoutMsg
					for _, i := range rng.Perm(n)[:q] {
						sig, err := signers[i].Auth.Sign(hotstuff.View(3).ToBytes())
						if err != nil {
							return err
						}
						tms = append(tms, hotstuff.TimeoutMsg{ID: hotstuff.ID(i + 1), View: 3, ViewSignature: sig})
					}
					tc, err := signers[0].Auth.CreateTimeoutCert(3, tms)
					if err != nil {
						// a quorum of honest timeouts that cannot be made into a certificate is an observation (completeness), not a
						// reason to stop
						var ids []int
						for _, tm := range tms {
							ids = append(ids, int(tm.ID))
						}
						abs := hx.AbsTC{View: 3, Sig: w.GoodSig(ids, hx.ViewMsg(3))}
						for _, v := range verifiers {
							o.emit(obj{"kind": "tc", "n": n, "scheme": scheme, "cache": v.cache, "mut": "honest-created", "honest": true, "tc": abs, "ok": false, "panic": "", "err": "CreateTimeoutCert: " + err.Error()})
						}
					} else {
						abs := hx.AbsTC{View: 3, Sig: w.GoodSig(hx.IDs(tc.Signature().Participants()), hx.ViewMsg(3))}
						for _, v := range verifiers {
							ok, pan, et := verdict(func() error { return v.auth.VerifyTimeoutCert(tc) })
							o.emit(obj{"kind": "tc", "n": n, "scheme": scheme, "cache": v.cache, "mut": "honest-created", "honest": true, "tc": abs, "ok": ok, "panic": pan, "err": et})
						}
					}
				}
				for _, sc := range sigMutations(w, rng, n, q, mV(3), mV(4)) {
					emitTC(sc.mut, false, hx.AbsTC{View: 3, Sig: sc.sig})
				}
				for _, v := range []int{2, 4, 1 << 20} {
					emitTC("relabel-view", false, hx.AbsTC{View: v, Sig: w.GoodSig(seqInts(1, q), hx.ViewMsg(3))})
				}
				emitTC("view0", false, hx.AbsTC{View: 0, Sig: w.GoodSig(seqInts(1, min(q, 1)), hx.ViewMsg(3))})
				// block signatures offered as a timeout certificate for the block's view and vice versa
				emitTC("block-sigs-as-tc", false, hx.AbsTC{View: 1, Sig: w.GoodSig(seqInts(1, q), hx.BlockMsg("B1"))})
				emitQC("view-sigs-as-qc", false, hx.AbsQC{Hash: "B1", View: 1, BlockView: 1, Known: true, Sig: w.GoodSig(seqInts(1, q), hx.ViewMsg(1))})
				// ---------------- AggQC ----------------
				w.DefQC("QG", hx.AbsQC{Hash: "genesis", View: 0, BlockView: 0, Known: true, Sig: nilSig})
				w.DefQC("Q1", hx.AbsQC{Hash: "B1", View: 1, BlockView: 1, Known: true, Sig: w.GoodSig(seqInts(1, q), hx.BlockMsg("B1"))})
				w.DefQC("Q2", hx.AbsQC{Hash: "B2", View: 2, BlockView: 2, Known: true, Sig: w.GoodSig(seqInts(n-q+1, n), hx.BlockMsg("B2"))})
				w.DefQC("QR", hx.AbsQC{Hash: "B1", View: 9, BlockView: 1, Known: true, Sig: w.GoodSig(seqInts(1, q), hx.BlockMsg("B1"))})           // relabelled
				w.DefQC("QS", hx.AbsQC{Hash: "B2", View: 2, BlockView: 2, Known: true, Sig: w.GoodSig(seqInts(1, max(q-1, 0)), hx.BlockMsg("B2"))}) // sub-quorum
				w.DefQC("QU", hx.AbsQC{Hash: "B3", View: 3, BlockView: -1, Known: false, Sig: w.GoodSig(seqInts(1, q), hx.BlockMsg("B3"))})         // unknown block
				names := []string{"QG", "Q1", "Q2", "QR", "QS", "QU"}
				emitAgg := func(mut string, honest bool, a hx.AbsAgg) {
					agg := w.MkAgg(a)
					for _, v := range verifiers {
						var high hotstuff.QuorumCert
						ok, pan, et := verdict(func() (err error) { high, err = v.auth.VerifyAggregateQC(agg); return })
						hn := ""
						if ok {
							for _, kv := range a.QCs {
								if w.QC(kv[1].(string)).Equals(high) {
									hn = kv[1].(string)
								}
							}
						}
						o.emit(obj{"kind": "agg", "n": n, "scheme": scheme, "cache": v.cache, "mut": mut, "honest": honest, "agg": a, "defs": w.QCDefs, "ok": ok, "high": hn, "panic": pan, "err": et})
					}
				}
				const tv = 3
				for variant := 0; variant < 4; variant++ {
					// assignment signer -> QC name
					assign := map[int]string{}
					for s := 1; s <= n+1; s++ {
						switch variant {
						case 0:
							assign[s] = []string{"QG", "Q1", "Q2"}[rng.Intn(3)]
						case 1:
							assign[s] = "Q1"
						default:
							assign[s] = names[rng.Intn(len(names))]
						}
					}
					msgOf := func(s int) hx.Msg { return hx.TMsg(s, tv, assign[s]) }
					altOf := func(s int) hx.Msg {
						if rng.Intn(2) == 0 {
							return hx.TMsg(s, tv+1, assign[s])
						}
						other := names[rng.Intn(len(names))]
						if other == assign[s] {
							other = "QG"
							if assign[s] == "QG" {
								other = "Q1"
							}
						}
						return hx.TMsg(s, tv, other)
					}
					qcsFor := func(a hx.AbsSig) [][2]any {
						seen := map[int]bool{}
						var out [][2]any
						ids := a.Bits
						if a.T == "multi" {
							ids = nil
							for _, e := range a.E {
								ids = append(ids, e[0].(int))
							}
						}
						for _, id := range ids {
							if !seen[id] && id >= 1 && id <= n+1 {
								seen[id] = true
								out = append(out, [2]any{id, assign[id]})
							}
						}
						return out
					}
					if variant < 2 && n >= 2 {
						// honestly assembled from real timeout messages
						var tms []hotstuff.TimeoutMsg
						var abs hx.AbsAgg
						abs.View = tv
						var who []int
						for _, i := range rng.Perm(n)[:q] {
							id := i + 1
							tm := hotstuff.TimeoutMsg{ID: hotstuff.ID(id), View: tv, SyncInfo: hotstuff.NewSyncInfoWith(w.QC(assign[id]))}
							sig, err := signers[i].Auth.Sign(tm.ToBytes())
							if err != nil {
								return err
							}
							tm.MsgSignature = sig
							tms = append(tms, tm)
							abs.QCs = append(abs.QCs, [2]any{id, assign[id]})
							who = append(who, id)
						}
						agg, err := signers[0].Auth.CreateAggregateQC(tv, tms)
						if err != nil {
							return err
						}
						order := hx.IDs(agg.Sig().Participants())
						abs.Sig = hx.AbsSig{T: "multi", E: []hx.Entry{}, Bits: []int{}}
						if scheme == crypto.NameBLS12 {
							abs.Sig.T = "bls"
						}
						for _, s := range order {
							if scheme == crypto.NameBLS12 {
								abs.Sig.E = append(abs.Sig.E, hx.Entry{0, s, msgOf(s)})
								abs.Sig.Bits = append(abs.Sig.Bits, s)
							} else {
								abs.Sig.E = append(abs.Sig.E, hx.Entry{s, s, msgOf(s)})
							}
						}
						for _, v := range verifiers {
							var high hotstuff.QuorumCert
							ok, pan, et := verdict(func() (err error) { high, err = v.auth.VerifyAggregateQC(agg); return })
							hn := ""
							if ok {
								for _, kv := range abs.QCs {
									if w.QC(kv[1].(string)).Equals(high) {
										hn = kv[1].(string)
									}
								}
							}
							o.emit(obj{"kind": "agg", "n": n, "scheme": scheme, "cache": v.cache, "mut": "honest-created", "honest": true, "agg": abs, "defs": w.QCDefs, "ok": ok, "high": hn, "panic": pan, "err": et})
						}
					}
					for _, sc := range sigMutations(w, rng, n, q, msgOf, altOf) {
						if sc.sig.T == "nil" {
							continue // asserted to panic by TestVerifyAggregateQCPanic; covered under C10
						}
						a := hx.AbsAgg{View: tv, QCs: qcsFor(sc.sig), Sig: sc.sig}
						emitAgg(sc.mut, false, a)
					}
					gs := hx.AbsSig{}
					{
						var list []int
						for _, i := range rng.Perm(n)[:q] {
							list = append(list, i+1)
						}
						gs = w.GoodSig(list, hx.ViewMsg(0))
						for i := range gs.E {
							gs.E[i][2] = msgOf(list[i])
						}
					}
					emitAgg("relabel-view", false, hx.AbsAgg{View: tv + 1, QCs: qcsFor(gs), Sig: gs})
					if q >= 2 {
						a := hx.AbsAgg{View: tv, QCs: qcsFor(gs), Sig: gs}
						a.QCs = a.QCs[1:]
						emitAgg("qcs-missing-signer", false, a)
					}
					if n > q {
						a := hx.AbsAgg{View: tv, QCs: qcsFor(gs), Sig: gs}
						for s := 1; s <= n; s++ {
							found := false
							for _, kv := range a.QCs {
								found = found || kv[0].(int) == s
							}
							if !found {
								a.QCs = append(a.QCs, [2]any{s, "Q2"})
								break
							}
						}
						emitAgg("qcs-extra-key", false, a)
					}
					{
						a := hx.AbsAgg{View: tv, QCs: qcsFor(gs), Sig: gs}
						if len(a.QCs) > 0 {
							cur := a.QCs[0][1].(string)
							repl := "Q2"
							if cur == "Q2" {
								repl = "Q1"
							}
							a.QCs = append([][2]any{{a.QCs[0][0], repl}}, a.QCs[1:]...)
							emitAgg("qcs-swapped-qc", false, a)
						}
					}
				}
			}
		}
	}
	return o.close()
}
