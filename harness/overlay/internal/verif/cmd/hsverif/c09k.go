//go:build verif

package main

import (
	"flag"
	"math/rand"
	"time"

	"github.com/relab/hotstuff"
	"github.com/relab/hotstuff/core"
	"github.com/relab/hotstuff/core/eventloop"
	"github.com/relab/hotstuff/internal/proto/clientpb"
	"github.com/relab/hotstuff/internal/proto/hotstuffpb"
	"github.com/relab/hotstuff/internal/proto/kauripb"
	"github.com/relab/hotstuff/internal/tree"
	"github.com/relab/hotstuff/internal/verif/hx"
	"github.com/relab/hotstuff/protocol/comm"
	"github.com/relab/hotstuff/protocol/leaderrotation"
	"github.com/relab/hotstuff/security/crypto"
)

func init() { subcommands["c09kauri"] = c09kauri }

func c09kauri(args []string) error {
	fs := flag.NewFlagSet("c09kauri", flag.ExitOnError)
	out := fs.String("out", "", "output ndjson")
	seed := fs.Int64("seed", 1, "seed")
	seqs := fs.Int("seqs", 60, "sequences")
	_ = fs.Parse(args)
	rng := rand.New(rand.NewSource(*seed))
	o, err := newNDJSON(*out)
	if err != nil {
		return err
	}
	for sq := 0; sq < *seqs; sq++ {
		n := []int{4, 7, 7}[sq%3]
		bf := 2 + rng.Intn(2)
		scheme := []string{crypto.NameECDSA, crypto.NameEDDSA, crypto.NameBLS12}[(sq/3)%3]
		pos := tree.DefaultTreePos(n)
		mkTree := func(id hotstuff.ID) *tree.Tree {
			t := tree.NewSimple(id, bf, append([]hotstuff.ID{}, pos...))
			t.SetTreeHeightWaitTime(time.Hour) // the wait timer never fires by itself; the scheduler injects the expiry
			return t
		}
		nodes, err := hx.NewNodes(hx.NodeOpts{N: n, Scheme: scheme, Ruleset: "chainedhotstuff", Kauri: mkTree,
			Leader: func(*core.RuntimeConfig) leaderrotation.LeaderRotation { return leaderrotation.NewFixed(1) }})
		if err != nil {
			return err
		}
		q := hotstuff.QuorumSize(n)
		// the node under test: root, an inner node, or a leaf
		x := nodes[[]int{0, 1, n - 1}[rng.Intn(3)]]
		xt := mkTree(x.ID)
		var qcs []hotstuff.QuorumCert
		eventloop.Register(x.EL, func(m hotstuff.NewViewMsg) {
			if qc, ok := m.SyncInfo.QC(); ok && !m.FromNetwork {
				qcs = append(qcs, qc)
			}
		}, eventloop.Prioritize())
		for _, p := range nodes {
			for c := 1; c <= 60; c++ { // a leader must never find the cache empty (Get would block the single-threaded driver)
				p.Cache.Add(&clientpb.Command{ClientID: 1, SequenceNumber: uint64(c)})
			}
			p.Deliver(hotstuff.ReplicaConnectedEvent{})
		}
		// the root proposes block b (view 1)
		root := nodes[0]
		root.Start()
		var prop *hotstuff.ProposeMsg
		rootOut := root.TakeOut()
		for _, om := range rootOut {
			if m, ok := om.Msg.(hotstuff.ProposeMsg); ok {
				prop = &m
			}
		}
		if prop == nil {
			o.emit(obj{"op": "new", "n": n, "q": q, "self": int(x.ID), "scheme": scheme, "noproposal": true})
			continue
		}
		b := prop.Block
		for _, p := range nodes {
			p.BC.Store(b)
		}
		subtree := idsToInts(xt.SubTree())
		children := idsToInts(xt.ReplicaChildren())
		o.emit(obj{"op": "new", "n": n, "q": q, "bf": bf, "self": int(x.ID), "scheme": scheme, "children": children, "subtree": subtree})
		var emittedQCs []hotstuff.QuorumCert
		var emittedSigs []hotstuff.QuorumSignature
		collect := func(line obj) {
			var qa, ca []obj
			for _, qc := range qcs {
				emittedQCs = append(emittedQCs, qc)
				valid := true
				for _, other := range nodes {
					if other.ID != x.ID {
						ok, _, _ := verdict(func() error { return other.Auth.VerifyQuorumCert(qc) })
						valid = valid && ok
					}
				}
				qa = append(qa, obj{"signers": hx.IDs(qc.Signature().Participants()), "valid": valid, "cur": qc.BlockHash() == b.Hash()})
			}
			qcs = nil
			for _, om := range x.TakeOut() {
				if c, ok := om.Msg.(hx.ContribOut); ok {
					if c.Sig != nil {
						emittedSigs = append(emittedSigs, c.Sig)
					}
					valid := c.Sig != nil
					if valid {
						okv, _, _ := verdict(func() error { return nodes[(int(x.ID))%n].Auth.Verify(c.Sig, b.ToBytes()) })
						valid = okv
					}
					ps := []int{}
					if c.Sig != nil {
						ps = hx.IDs(c.Sig.Participants())
					}
					ca = append(ca, obj{"view": int(c.View), "signers": ps, "valid": valid})
				}
			}
			line["qcs"], line["contribs"], line["agg"] = qa, ca, idsToInts(x.Kauri.VerifAgg())
			o.emit(line)
		}
		if x.ID != root.ID {
			x.Start()
			x.TakeOut()
			x.Deliver(*prop)
		} else {
			x.Out = rootOut
		}
		collect(obj{"op": "begin", "voted": int(x.Voter.VerifLastVotedView()) == 1})
		// contributions
		sigOf := func(ids []int) hotstuff.QuorumSignature {
			var sigs []hotstuff.QuorumSignature
			for _, id := range ids {
				pc, err := nodes[id-1].Auth.CreatePartialCert(b)
				if err != nil {
					panic(err)
				}
				sigs = append(sigs, pc.Signature())
			}
			if len(sigs) == 1 {
				return sigs[0]
			}
			s, err := nodes[0].Auth.Combine(sigs...)
			if err != nil {
				panic(err)
			}
			return s
		}
		others := []int{}
		for i := 1; i <= n; i++ {
			if i != int(x.ID) {
				others = append(others, i)
			}
		}
		timerFired := false
		certified := false
		var prevFrom []int
		sentIDs := map[int]bool{}
		collectC := collect
		collect = func(line obj) {
			certified = certified || len(qcs) > 0
			collectC(line)
		}
		for step := 0; step < 6+rng.Intn(6) && !(certified && x.ID == root.ID); step++ { // (the root starts the next block once a certificate exists; the others keep merging)
			// the wait timer of a round fires at most once; once a certificate exists the leader moves on to the next block
			if rng.Intn(9) == 0 && !timerFired {
				timerFired = true
				x.Deliver(comm.VerifTimerExpired(1))
				collect(obj{"op": "timer"})
				continue
			}
			// a random non-empty set of other replicas (a child's subtree in the honest case)
			k := 1 + rng.Intn(min(3, len(others)))
			perm := rng.Perm(len(others))[:k]
			ids := []int{}
			for _, p := range perm {
				ids = append(ids, others[p])
			}
			from := ids[0]
			// a child may contribute more than once in a view (its own vote when its wait timer fires, its subtree's later):
			// often the sender is one that has sent before, and the signers are ones not sent yet
			if len(prevFrom) > 0 && rng.Intn(3) == 0 {
				from = prevFrom[rng.Intn(len(prevFrom))]
				var fresh []int
				for _, id := range others {
					if !sentIDs[id] {
						fresh = append(fresh, id)
					}
				}
				if len(fresh) > 0 && rng.Intn(4) > 0 {
					rng.Shuffle(len(fresh), func(i, j int) { fresh[i], fresh[j] = fresh[j], fresh[i] })
					ids = fresh[:1+rng.Intn(min(2, len(fresh)))]
				}
			}
			prevFrom = append(prevFrom, from)
			view := 1
			valid := true
			kind := []string{"good", "good", "good", "good", "wrongview", "invalid", "nil"}[rng.Intn(7)]
			var sig hotstuff.QuorumSignature
			switch kind {
			case "good":
				sig = sigOf(ids)
			case "wrongview":
				sig = sigOf(ids)
				view = 2
			case "invalid": // signatures over something else
				s, _ := nodes[from-1].Auth.Sign([]byte("not the block"))
				sig, ids, valid = s, []int{from}, false
			case "nil":
				sig, ids, valid = nil, []int{}, false
			}
			c := &kauripb.Contribution{ID: uint32(from), View: uint64(view)}
			if sig != nil {
				c.Signature = hotstuffpb.QuorumSignatureToProto(sig)
			}
			pan := ""
			func() {
				defer func() {
					if r := recover(); r != nil {
						pan = panicSite()
					}
				}()
				x.Deliver(c)
			}()
			if kind == "good" {
				for _, id := range ids {
					sentIDs[id] = true
				}
			}
			collect(obj{"op": "contrib", "from": from, "signers": ids, "valid": valid, "view": view, "kind": kind, "panic": pan})
		}
		// what left the node earlier must still be what it was: certificates and aggregates are verified again after all traffic
		bad := 0
		for _, qc := range emittedQCs {
			if ok, _, _ := verdict(func() error { return nodes[(int(x.ID))%n].Auth.VerifyQuorumCert(qc) }); !ok {
				bad++
			}
		}
		for _, sg := range emittedSigs {
			if ok, _, _ := verdict(func() error { return nodes[(int(x.ID))%n].Auth.Verify(sg, b.ToBytes()) }); !ok {
				bad++
			}
		}
		o.emit(obj{"op": "recheck", "checked": len(emittedQCs) + len(emittedSigs), "bad": bad})
		for _, p := range nodes {
			p.Stop()
		}
	}
	return o.close()
}
